package seq

import (
	"bytes"
	"errors"
	"fmt"
	"reflect"
	"strings"
	"unsafe"

	"github.com/ClickHouse/ch-go/proto"

	"verif/checks/seq/reg"
	"verif/vk"
)

// sink14 is the underlying writer of the vectored writer under test.
type sink14 struct {
	got    []byte
	failAt int  // fail (with an error) once this many bytes of the current flush were taken; -1 never
	short  bool // report a short write without error (non-conforming writer)
	taken  int
}

var errSink = errors.New("sink failure")

func (s *sink14) Write(p []byte) (int, error) {
	if s.failAt >= 0 {
		room := s.failAt - s.taken
		if room < len(p) {
			if room < 0 {
				room = 0
			}
			s.got = append(s.got, p[:room]...)
			s.taken += room
			return room, errSink
		}
	}
	if s.short && len(p) > 1 {
		s.got = append(s.got, p[:len(p)-1]...)
		s.taken += len(p) - 1
		return len(p) - 1, nil
	}
	s.got = append(s.got, p...)
	s.taken += len(p)
	return len(p), nil
}

type op14 struct {
	name string
	kind byte // 'b' ChainBuffer, 'w' ChainWrite, 'f' Flush
	n    int
	mode int // flush: -1 ok, >=0 fail after n bytes, -2 short write
}

var ops14 = []op14{
	{"buf0", 'b', 0, 0}, {"buf1", 'b', 1, 0}, {"buf3", 'b', 3, 0}, {"buf70", 'b', 70, 0},
	{"bufFill", 'b', -1, 0}, // appends exactly as many bytes as the buffer has room for (len == cap afterwards)
	{"write0", 'w', 0, 0}, {"write1", 'w', 1, 0}, {"write5", 'w', 5, 0},
	{"flush", 'f', 0, -1}, {"flush-fail@0", 'f', 0, 0}, {"flush-fail@1", 'f', 0, 1}, {"flush-fail@4", 'f', 0, 4}, {"flush-short", 'f', 0, -2},
}

// caps14: initial capacities of the internal buffer (none, small, and two of the sizes the
// client and typical callers start with).
var caps14 = []int{0, 64, 1024, 4096}

// writerFingerprint reads the private state of proto.Writer (for state counting only).
func writerFingerprint(w *proto.Writer, pending []byte) uint64 {
	v := reflect.ValueOf(w).Elem()
	f := func(name string) reflect.Value {
		fv := v.FieldByName(name)
		return reflect.NewAt(fv.Type(), unsafe.Pointer(fv.UnsafeAddr())).Elem()
	}
	buf := f("buf").Interface().(*proto.Buffer)
	off := f("bufOffset").Int()
	vec := f("vec")
	lens := []int{}
	for i := 0; i < vec.Len(); i++ {
		lens = append(lens, vec.Index(i).Len())
	}
	return vk.Hash(len(buf.Buf), cap(buf.Buf) > 64, cap(buf.Buf) == len(buf.Buf), off, fmt.Sprint(lens), pending)
}

// C14 — the vectored writer emits exactly what was chained, once, in order.
func C14(c *vk.Ctx) {
	c.Rule("explicit-state search over all operation sequences of length <= n (quick 6, thorough 7) over the 13-operation alphabet {ChainBuffer appending 0/1/3/70 bytes or exactly the free capacity (buffer full at the next cut), ChainWrite of a 0/1/5-byte slice, Flush to a writer that accepts everything / fails after 0, 1, 4 bytes / reports a short write} x initial buffer capacity {0, 64, 1024, 4096}; every byte is position-unique; reference model = the byte string pending since the last flush; after every Flush the bytes delivered must be exactly pending (a prefix of it when the writer failed) and nothing delivered earlier may appear again. Plus path equivalence WriteBlock+Flush = EncodeBlock on a column corpus (fifteen columns incl. containers with rows whose LowCardinality / JSON element column is empty, strings of 1 KiB / 4 KiB / 70 KB followed by rows of other lengths, bare, in an array and as dictionary values, and the stateful LowCardinality / Array(LowCardinality) / Map(., LowCardinality) / JSON, with 3 rows and with zero rows); the non-generic ColLowCardinalityRaw at its four key widths; WriteColumn+Flush = EncodeColumn for every base column and every composition over Nothing at 255 / 256 / 1023 / 1024 / 1025 / 2048 / 4096 / 4097 / 8192 rows (thorough also 3072 / 16384 / 65536 / 131072). states = distinct private writer states (reflect fingerprint incl. buffer length, offset, vector shape); transitions = operations executed.")
	depth := 6
	if !c.Quick() {
		depth = 7
	}
	states := map[uint64]struct{}{}
	var transitions, seqs int64
	seq := make([]int, 0, depth)
	var run func()
	var checkCap func(capa int)
	check := func() {
		for _, capa := range caps14 {
			if msg, fn := vk.Recover(func() { checkCap(capa) }); msg != "" {
				c.Violation("C14/panic/"+fn, fmt.Sprintf("cap=%d/%v", capa, names14(seq)), msg, nil)
			}
		}
		seqs++
	}
	checkCap = func(capa int) {
		{
			sink := &sink14{failAt: -1}
			w := proto.NewWriter(sink, &proto.Buffer{Buf: make([]byte, 0, capa)})
			var pending []byte
			next := byte(1)
			fresh := func(n int) []byte {
				b := make([]byte, n)
				for i := range b {
					b[i] = next
					next++
					if next == 0 {
						next = 1
					}
				}
				return b
			}
			delivered := 0
			for step, oi := range seq {
				o := ops14[oi]
				transitions++
				switch o.kind {
				case 'b':
					var data []byte
					w.ChainBuffer(func(b *proto.Buffer) {
						k := o.n
						if k < 0 {
							k = cap(b.Buf) - len(b.Buf)
						}
						data = fresh(k)
						b.PutRaw(data)
					})
					pending = append(pending, data...)
				case 'w':
					data := fresh(o.n)
					w.ChainWrite(data)
					pending = append(pending, data...)
				case 'f':
					sink.failAt, sink.short, sink.taken = -1, false, 0
					if o.mode >= 0 {
						sink.failAt = o.mode
					} else if o.mode == -2 {
						sink.short = true
					}
					before := len(sink.got)
					n, err := w.Flush()
					out := sink.got[before:]
					id := func() string { return fmt.Sprintf("cap=%d/%v@%d", capa, names14(seq), step) }
					conforming := o.mode != -2
					switch {
					case err == nil && conforming && !bytes.Equal(out, pending):
						c.Violation("C14/flush-delivers-wrong-bytes", id(), fmt.Sprintf("flush delivered %x, pending was %x", out, pending), nil)
					case !bytes.HasPrefix(pending, out) && !(o.mode == -2):
						c.Violation("C14/failed-flush-delivers-non-prefix", id(), fmt.Sprintf("flush (err=%v) delivered %x, pending was %x", err, out, pending), nil)
					case o.mode == -2 && !isSubsequenceChunks(out, pending):
						c.Violation("C14/short-write-garbles", id(), fmt.Sprintf("delivered %x of pending %x", out, pending), nil)
					case conforming && int(n) != len(out):
						c.Violation("C14/flush-count", id(), fmt.Sprintf("Flush reported %d bytes, writer took %d", n, len(out)), nil)
					case o.mode >= 0 && o.mode < len(pending) && err == nil:
						c.Violation("C14/flush-swallows-error", id(), "the writer failed but Flush returned nil", nil)
					}
					pending = pending[:0]
					delivered = len(sink.got)
				}
				states[writerFingerprint(w, pending)] = struct{}{}
			}
			_ = delivered
		}
	}
	n := int64(0)
	run = func() {
		if len(seq) > 0 {
			// shard on complete sequences
			if c.Mine(n) {
				check()
			}
			n++
		}
		if len(seq) == depth {
			return
		}
		for i := range ops14 {
			seq = append(seq, i)
			run()
			seq = seq[:len(seq)-1]
		}
	}
	if c.Only == "" {
		run()
	} else if i, j := strings.Index(c.Only, "["), strings.Index(c.Only, "]"); i >= 0 && j > i {
		// replay of one recorded sequence
		for _, nm := range strings.Fields(c.Only[i+1 : j]) {
			for k, o := range ops14 {
				if o.name == nm {
					seq = append(seq, k)
				}
			}
		}
		check()
	}
	c.Eval("operation sequences", seqs*int64(len(caps14)))
	c.DistinctN(seqs * int64(len(caps14)))
	c.AddStates(int64(len(states)), transitions, seqs*int64(len(caps14)))

	// path equivalence on a small hand-made corpus (the full column registry runs under C01)
	if c.Shard == 0 {
		for _, rev := range []int{54460, 54454, 54453, 51903, 51902, -54460, -54454, -51902} {
			// negative: the same columns without rows (a block with columns and zero rows, as
			// sent for an INSERT whose input is empty; stateful columns must write nothing)
			rows := 3
			if rev < 0 {
				rev, rows = -rev, 0
			}
			var input []proto.InputColumn
			u := proto.ColUInt64{1, 2, 3}
			s := new(proto.ColStr)
			s.AppendArr([]string{"a", "", "ccc"})
			f := &proto.ColFixedStr{Size: 2}
			f.AppendArr([][]byte{[]byte("ab"), []byte("cd"), []byte("ef")})
			lc := proto.NewLowCardinality[string](new(proto.ColStr))
			lc.AppendArr([]string{"x", "y", "x"})
			arr := proto.NewArray[uint64](new(proto.ColUInt64))
			arr.AppendArr([][]uint64{{1}, {}, {2, 3}})
			nu := proto.NewColNullable[string](new(proto.ColStr))
			nu.AppendArr([]proto.Nullable[string]{proto.NewNullable("v"), proto.Null[string](), proto.NewNullable("")})
			alc := proto.NewArray[string](proto.NewLowCardinality[string](new(proto.ColStr)))
			alc.AppendArr([][]string{{"p", "q"}, {}, {"p"}})
			mlc := proto.NewMap[string, string](new(proto.ColStr), proto.NewLowCardinality[string](new(proto.ColStr)))
			mlc.AppendKV([]proto.KV[string, string]{{Key: "k", Value: "v"}})
			mlc.AppendKV(nil)
			mlc.AppendKV([]proto.KV[string, string]{{Key: "k2", Value: "v"}})
			js := new(proto.ColJSONStr)
			js.AppendArr([]string{"{}", "{\"a\":1}", "[]"})
			// rows on both sides of size steps a vectored writer may key on (1 KiB, 4 KiB, 64 KiB),
			// each followed by a row of another length
			big := new(proto.ColStr)
			big.AppendArr([]string{strings.Repeat("a", 1023) + "|", strings.Repeat("b", 4097), strings.Repeat("c", 70000)})
			bigArr := proto.NewArray[string](new(proto.ColStr))
			bigArr.AppendArr([][]string{{strings.Repeat("d", 1024), "x"}, {}, {strings.Repeat("e", 2000), strings.Repeat("f", 1025), ""}})
			bigLC := proto.NewLowCardinality[string](new(proto.ColStr))
			bigLC.AppendArr([]string{strings.Repeat("g", 1500), "k", strings.Repeat("h", 1024)})
			input = append(input, proto.InputColumn{Name: "u", Data: &u}, proto.InputColumn{Name: "s", Data: s}, proto.InputColumn{Name: "f", Data: f},
				proto.InputColumn{Name: "lc", Data: lc}, proto.InputColumn{Name: "arr", Data: arr}, proto.InputColumn{Name: "nu", Data: nu},
				proto.InputColumn{Name: "alc", Data: alc}, proto.InputColumn{Name: "mlc", Data: mlc}, proto.InputColumn{Name: "js", Data: js},
				proto.InputColumn{Name: "big", Data: big}, proto.InputColumn{Name: "bigArr", Data: bigArr}, proto.InputColumn{Name: "bigLC", Data: bigLC})
			// containers that have rows while the stateful column inside them holds nothing
			alcE := proto.NewArray[string](proto.NewLowCardinality[string](new(proto.ColStr)))
			alcE.AppendArr([][]string{{}, {}, {}})
			mlcE := proto.NewMap[string, string](proto.NewLowCardinality[string](new(proto.ColStr)), new(proto.ColStr))
			mlcE.AppendKV(nil)
			mlcE.AppendKV(nil)
			mlcE.AppendKV(nil)
			ajsE := proto.NewArray[string](new(proto.ColJSONStr))
			ajsE.AppendArr([][]string{{}, {}, {}})
			input = append(input, proto.InputColumn{Name: "alcE", Data: alcE}, proto.InputColumn{Name: "mlcE", Data: mlcE}, proto.InputColumn{Name: "ajsE", Data: ajsE})
			if rows == 0 {
				for _, in := range input {
					in.Data.(proto.Resettable).Reset()
				}
			}
			blk := proto.Block{Info: proto.BlockInfo{BucketNum: -1}, Columns: len(input), Rows: rows}
			var eb proto.Buffer
			if err := blk.EncodeBlock(&eb, rev, input); err != nil {
				c.Violation("C14/path/encode-error", fmt.Sprint("rev=", rev, "/rows=", rows), err.Error(), nil)
				continue
			}
			sink := &sink14{failAt: -1}
			w := proto.NewWriter(sink, new(proto.Buffer))
			if err := blk.WriteBlock(w, rev, input); err != nil {
				c.Violation("C14/path/write-error", fmt.Sprint("rev=", rev, "/rows=", rows), err.Error(), nil)
				continue
			}
			if _, err := w.Flush(); err != nil || !bytes.Equal(sink.got, eb.Buf) {
				c.Violation("C14/path/write-differs-from-encode", fmt.Sprint("rev=", rev, "/rows=", rows), fmt.Sprintf("WriteBlock+Flush %s\nEncodeBlock %s", vk.Hex(sink.got), vk.Hex(eb.Buf)), nil)
			}
			c.Eval("path equivalence", 1)
		}
	}
	// the non-generic LowCardinality column (not in the registry: it has no typed rows) at each of
	// its four key widths: vectored path = buffer path, and the bytes decode back to the keys
	if c.Shard == 0 || c.Only != "" {
		for _, key := range []proto.CardinalityKey{proto.KeyUInt8, proto.KeyUInt16, proto.KeyUInt32, proto.KeyUInt64} {
			for _, rows := range []int{1, 4, 1025} {
				id := fmt.Sprintf("path-lcraw/key=%d/rows=%d", key, rows)
				if c.Only != "" && c.Only != id {
					continue
				}
				c.Current(id)
				msg, fn := vk.Recover(func() {
					idx := new(proto.ColStr)
					for _, v := range []string{"zero", "one", "two"} {
						idx.Append(v)
					}
					col := &proto.ColLowCardinalityRaw{Index: idx, Key: key}
					var want []int
					for i := 0; i < rows; i++ {
						col.AppendKey((i*2 + i/3) % 3)
						want = append(want, (i*2+i/3)%3)
					}
					var eb proto.Buffer
					col.EncodeColumn(&eb)
					sink := &sink14{failAt: -1}
					w := proto.NewWriter(sink, new(proto.Buffer))
					col.WriteColumn(w)
					if _, err := w.Flush(); err != nil || !bytes.Equal(sink.got, eb.Buf) {
						c.Violation("C14/path/write-column-differs/LowCardinalityRaw", id, fmt.Sprintf("WriteColumn+Flush gives %d bytes, EncodeColumn %d (first difference at %d, err %v)", len(sink.got), len(eb.Buf), firstDiff(sink.got, eb.Buf), err), nil)
						return
					}
					back := &proto.ColLowCardinalityRaw{Index: new(proto.ColStr)}
					if err := back.DecodeColumn(proto.NewReader(bytes.NewReader(sink.got)), rows); err != nil || back.Rows() != rows || back.Key != key {
						c.Violation("C14/path/lcraw-decode", id, fmt.Sprintf("the written column does not decode back: err=%v rows=%d key=%d", err, back.Rows(), back.Key), nil)
						return
					}
					for i, wk := range want {
						var got int
						switch key {
						case proto.KeyUInt8:
							got = int(back.Keys8[i])
						case proto.KeyUInt16:
							got = int(back.Keys16[i])
						case proto.KeyUInt32:
							got = int(back.Keys32[i])
						default:
							got = int(back.Keys64[i])
						}
						if got != wk {
							c.Violation("C14/path/lcraw-decode", id, fmt.Sprintf("key %d decodes as %d, want %d", i, got, wk), nil)
							return
						}
					}
				})
				if msg != "" {
					c.Violation("C14/panic/"+fn, id, msg, nil)
				}
				c.Eval("path equivalence", 1)
				c.DistinctN(1)
			}
		}
	}
	// path equivalence at row counts at and next to the chunk sizes a zero-copy writer may work
	// in: every base column and every composition over Nothing, WriteColumn+Flush = EncodeColumn
	{
		var entries []reg.Entry
		for _, e := range regEntries(c) {
			if (e.Depth == 0 || strings.Contains(e.Label, "Nothing")) && !noRef(e.Label) {
				entries = append(entries, e)
			}
		}
		counts := []int{255, 256, 1023, 1024, 1025, 2048, 4096, 4097, 8192}
		if !c.Quick() {
			counts = append(counts, 3072, 16384, 65536, 131072)
		}
		var kn int64
		for _, e := range entries {
			for _, rows := range counts {
				kn++
				id := fmt.Sprintf("path-rows/%s/rows=%d", e.Label, rows)
				if (c.Only == "" && !c.Mine(kn)) || (c.Only != "" && c.Only != id) {
					continue
				}
				c.Current(id)
				msg, fn := vk.Recover(func() {
					idx := make([]int, rows)
					for i := range idx {
						idx[i] = (i*7 + i/251) % 5
					}
					col, _, _, err := build(e, idx)
					if err != nil {
						return
					}
					if p, ok := col.C.(proto.Preparable); ok {
						if err := p.Prepare(); err != nil {
							return
						}
					}
					var eb proto.Buffer
					col.C.EncodeColumn(&eb)
					sink := &sink14{failAt: -1}
					w := proto.NewWriter(sink, new(proto.Buffer))
					col.C.WriteColumn(w)
					if _, err := w.Flush(); err != nil || !bytes.Equal(sink.got, eb.Buf) {
						c.Violation("C14/path/write-column-differs/"+e.Label, id, fmt.Sprintf("WriteColumn+Flush gives %d bytes, EncodeColumn %d (first difference at %d, err %v)", len(sink.got), len(eb.Buf), firstDiff(sink.got, eb.Buf), err), nil)
					}
				})
				if msg != "" {
					c.Violation("C14/panic/"+fn, id, msg, nil)
				}
				c.Eval("path equivalence", 1)
				c.DistinctN(1)
			}
		}
	}
	c.Sample(map[string]any{"sequence": []string{"buf3", "write5", "flush-fail@4", "buf1", "flush"}, "model": "pending=8 bytes; failed flush delivers a 4-byte prefix and drops the rest; the last flush delivers exactly the 1 new byte"})
}

func names14(seq []int) []string {
	out := make([]string, len(seq))
	for i, s := range seq {
		out[i] = ops14[s].name
	}
	return out
}

// isSubsequenceChunks: with a short-writing sink each chunk loses its last byte; what
// arrives must still be an in-order subsequence of pending.
func isSubsequenceChunks(out, pending []byte) bool {
	j := 0
	for _, b := range out {
		for j < len(pending) && pending[j] != b {
			j++
		}
		if j == len(pending) {
			return false
		}
		j++
	}
	return true
}
