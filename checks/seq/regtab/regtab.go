// Package regtab holds the generated table of typed column constructors (kept apart from
// the glue in package reg so that importers of the glue do not compile 1000 generic
// instantiations).
package regtab

import "verif/checks/seq/reg"

// ByLabel finds a generated entry.
func ByLabel(label string) (reg.Entry, bool) {
	for _, e := range Generated {
		if e.Label == label {
			return e, true
		}
	}
	return reg.Entry{}, false
}
