// Package seq holds the sequential (non-scheduler) checks: bounded-exhaustive
// enumerations and explicit-state searches over the real proto/compress code.
package seq

import (
	"bytes"
	"io"

	"verif/vk"
)

func bytesReader(b []byte) io.Reader { return bytes.NewReader(b) }

// Checks is the registry used by cmd/seqw.
var Checks = map[string]vk.Check{
	"C20": C20,
	"C08": C08Reader,
	"C17": C17,
	"C05": C05,
	"C14": C14,
	"C01": C01,
	"C07": C07,
	"C15": C15,
	"C16": C16,
	"C06": C06,
	"C18": C18,
	"C19": C19,
}
