package seq

import (
	"bytes"
	"errors"
	"fmt"
	"io"
	"reflect"

	"github.com/ClickHouse/ch-go/proto"

	"verif/refcol"
	"verif/refwire"
	"verif/vk"
)

type codec15 struct {
	name  string
	mk    func() proto.Column
	width int
}

func codecs15() []codec15 {
	var out []codec15
	add := func(name string, mk func() proto.Column) {
		t, err := refcol.Parse(string(mk().Type()))
		if err != nil || t.Kind != refcol.Fixed {
			panic(fmt.Sprintf("codec %s: type %q", name, mk().Type()))
		}
		out = append(out, codec15{name, mk, t.Width})
	}
	add("Int8", func() proto.Column { return new(proto.ColInt8) })
	add("Int16", func() proto.Column { return new(proto.ColInt16) })
	add("Int32", func() proto.Column { return new(proto.ColInt32) })
	add("Int64", func() proto.Column { return new(proto.ColInt64) })
	add("Int128", func() proto.Column { return new(proto.ColInt128) })
	add("Int256", func() proto.Column { return new(proto.ColInt256) })
	add("UInt8", func() proto.Column { return new(proto.ColUInt8) })
	add("UInt16", func() proto.Column { return new(proto.ColUInt16) })
	add("UInt32", func() proto.Column { return new(proto.ColUInt32) })
	add("UInt64", func() proto.Column { return new(proto.ColUInt64) })
	add("UInt128", func() proto.Column { return new(proto.ColUInt128) })
	add("UInt256", func() proto.Column { return new(proto.ColUInt256) })
	add("Float32", func() proto.Column { return new(proto.ColFloat32) })
	add("Float64", func() proto.Column { return new(proto.ColFloat64) })
	add("Decimal32", func() proto.Column { return new(proto.ColDecimal32) })
	add("Decimal64", func() proto.Column { return new(proto.ColDecimal64) })
	add("Decimal128", func() proto.Column { return new(proto.ColDecimal128) })
	add("Decimal256", func() proto.Column { return new(proto.ColDecimal256) })
	add("Enum8", func() proto.Column { return new(proto.ColEnum8) })
	add("Enum16", func() proto.Column { return new(proto.ColEnum16) })
	add("Date", func() proto.Column { return new(proto.ColDate) })
	add("Date32", func() proto.Column { return new(proto.ColDate32) })
	add("DateTime", func() proto.Column { return new(proto.ColDateTime) })
	add("DateTime64", func() proto.Column { return new(proto.ColDateTime64).WithPrecision(3) })
	add("IPv4", func() proto.Column { return new(proto.ColIPv4) })
	add("IPv6", func() proto.Column { return new(proto.ColIPv6) })
	add("FixedStr8", func() proto.Column { return new(proto.ColFixedStr8) })
	add("FixedStr16", func() proto.Column { return new(proto.ColFixedStr16) })
	add("FixedStr32", func() proto.Column { return new(proto.ColFixedStr32) })
	add("FixedStr64", func() proto.Column { return new(proto.ColFixedStr64) })
	add("FixedStr128", func() proto.Column { return new(proto.ColFixedStr128) })
	add("FixedStr256", func() proto.Column { return new(proto.ColFixedStr256) })
	add("FixedStr512", func() proto.Column { return new(proto.ColFixedStr512) })
	add("Bool", func() proto.Column { return new(proto.ColBool) })
	add("UUID", func() proto.Column { return new(proto.ColUUID) })
	return out
}

func errClass15(err error) string {
	switch {
	case err == nil:
		return "nil"
	case errors.Is(err, io.ErrUnexpectedEOF):
		return "UnexpectedEOF"
	case errors.Is(err, io.EOF):
		return "EOF"
	}
	return "other"
}

// inputs15 returns the byte strings (whole numbers of elements) a codec is exercised on.
func inputs15(cd codec15, seed int64) map[string][]byte {
	in := map[string][]byte{}
	w := cd.width
	switch {
	case cd.name == "Bool":
		in["all-accepted-values"] = []byte{0, 1, 1, 0, 1}
	case w == 1:
		b := make([]byte, 256)
		for i := range b {
			b[i] = byte(i)
		}
		in["all-256-values"] = b
	case w == 2:
		b := make([]byte, 2*65536)
		for i := 0; i < 65536; i++ {
			b[2*i], b[2*i+1] = byte(i), byte(i>>8)
		}
		in["all-65536-values"] = b
	}
	pat := func(name string, rows int, f func(row, i int) byte) {
		b := make([]byte, rows*w)
		for r := 0; r < rows; r++ {
			for i := 0; i < w; i++ {
				b[r*w+i] = f(r, i)
				if cd.name == "Bool" {
					b[r*w+i] &= 1
				}
			}
		}
		in[name] = b
	}
	for rows := 1; rows <= 5; rows++ {
		pat(fmt.Sprintf("zero/%d", rows), rows, func(r, i int) byte { return 0 })
		pat(fmt.Sprintf("ones/%d", rows), rows, func(r, i int) byte { return 0xff })
		pat(fmt.Sprintf("counter/%d", rows), rows, func(r, i int) byte { return byte(r*w + i + 1) })
		pat(fmt.Sprintf("high-bit/%d", rows), rows, func(r, i int) byte {
			if i == w-1 {
				return 0x80
			}
			return 0
		})
		pat(fmt.Sprintf("low-byte/%d", rows), rows, func(r, i int) byte {
			if i == 0 {
				return byte(r + 1)
			}
			return 0
		})
	}
	// many rows: on both sides of 65536 rows and of 1 MiB of column data (steps at which a
	// decoder may start to read in pieces)
	for _, rows := range []int{65535, 65536, 65537, (1<<20)/w + 1} {
		rows := rows
		pat(fmt.Sprintf("many/%d", rows), rows, func(r, i int) byte { return byte((r*131 + i*7 + r>>8) & 0xff) })
	}
	f := vk.NewFiller(seed, uint64(w))
	fb := f.Bytes(7 * w)
	if cd.name == "Bool" {
		for i := range fb {
			fb[i] &= 1
		}
	}
	in["filler/7"] = fb
	in["rows-0"] = []byte{}
	return in
}

func rowsSig(col proto.Column) string {
	m := reflect.ValueOf(col).MethodByName("Row")
	var sb bytes.Buffer
	n := col.Rows()
	for i := 0; i < n; i++ {
		fmt.Fprintf(&sb, "%v;", m.Call([]reflect.Value{reflect.ValueOf(i)})[0].Interface())
	}
	return fmt.Sprintf("%d:%016x", n, vk.Hash(sb.Bytes()))
}

// C15 — the pure-Go build and the default build of the codecs behave identically.
func C15(c *vk.Ctx) {
	c.Rule("each of the 35 column codecs that exist in two build variants (33 generated + Bool + UUID) x inputs {all 256 values for 1-byte elements, all 65536 values for 2-byte elements, for wider elements 1..5 rows of the patterns zero / all-ones / counter / high bit / low byte and a 7-row filler, 0 rows, and 65535 / 65536 / 65537 rows and one row more than 1 MiB of column data for every codec} x target {fresh, reset after use} x DecodeColumn of the whole input and of EVERY truncation of it (inputs of more than 64 bytes: the first and last 16 cuts and the cuts at and next to multiples of 4096, 65536 and every multiple of 1 MiB) x the same column read twice in a row from one reader (plain; as two LZ4 frames; as two None frames; as one column spread over two ZSTD frames followed by a third frame) x EncodeColumn into an empty buffer and into buffers pre-filled with 1..9 bytes x WriteColumn+Flush (after buffered bytes; on a writer whose buffer started non-empty, the column and a second column of other values with a buffered byte in between). Each build checks encode(decode(x)) = x and prefix preservation itself; the driver then compares the two builds' transcripts (decoded row values, produced bytes, error classes) line by line. Bool is fed only the bytes both builds accept (0/1); other bytes are decoded in each build only to show that nothing panics. distinct_nontrivial = transcript lines.")
	for ci, cd := range codecs15() {
		if c.Only == "" && !c.Mine(int64(ci)) {
			continue
		}
		ins := inputs15(cd, c.Seed)
		for _, name := range vk.SortedKeys(ins) {
			in := ins[name]
			rows := len(in) / cd.width
			for _, target := range []string{"fresh", "reset"} {
				id := fmt.Sprintf("%s/%s/%s", cd.name, name, target)
				if c.Only != "" && c.Only != id {
					continue
				}
				c.Current(id)
				msg, fn := vk.Recover(func() {
					col := cd.mk()
					if target == "reset" {
						junk := bytes.Repeat([]byte{1}, 3*cd.width)
						_ = col.DecodeColumn(proto.NewReader(bytes.NewReader(junk)), 3)
						col.Reset()
					}
					err := col.DecodeColumn(proto.NewReader(bytes.NewReader(in)), rows)
					line := errClass15(err)
					if err == nil {
						if col.Rows() != rows {
							c.Violation("C15/decode-rows/"+cd.name, id, fmt.Sprintf("Rows()=%d want %d", col.Rows(), rows), nil)
						}
						line += " rows=" + rowsSig(col)
						// encode back: empty and pre-filled buffers
						for p := 0; p <= 9; p++ {
							prefix := bytes.Repeat([]byte{0xA5}, p)
							buf := proto.Buffer{Buf: append([]byte{}, prefix...)}
							col.EncodeColumn(&buf)
							if !bytes.HasPrefix(buf.Buf, prefix) || !bytes.Equal(buf.Buf[p:], in) {
								c.Violation("C15/encode-not-inverse/"+cd.name, fmt.Sprintf("%s/prefix=%d", id, p), fmt.Sprintf("EncodeColumn after a %d-byte prefix gives %s, decoded input was %s", p, vk.Hex(buf.Buf), vk.Hex(in)), nil)
							}
							line += fmt.Sprintf(" enc%d=%016x", p, vk.Hash(buf.Buf))
						}
						sink := &sink14{failAt: -1}
						w := proto.NewWriter(sink, &proto.Buffer{Buf: []byte{1, 2, 3}[:0]})
						w.ChainBuffer(func(b *proto.Buffer) { b.PutRaw([]byte{9, 9, 9}) })
						col.WriteColumn(w)
						if _, err := w.Flush(); err != nil || !bytes.Equal(sink.got, append([]byte{9, 9, 9}, in...)) {
							c.Violation("C15/write-column/"+cd.name, id, fmt.Sprintf("WriteColumn+Flush gives %s", vk.Hex(sink.got)), nil)
						}
						line += fmt.Sprintf(" write=%016x", vk.Hash(sink.got))
						// other starting states of the writer's buffer: a writer created over a buffer that
						// already holds bytes, and the column written twice with buffered bytes in between
						sink2 := &sink14{failAt: -1}
						w2 := proto.NewWriter(sink2, &proto.Buffer{Buf: []byte{7, 8}})
						// the second column written before the flush holds OTHER values (the input rotated
						// by one element): a scratch buffer shared between pending writes shows up
						in2 := in
						col2 := col
						if wd := cd.width; wd > 0 && len(in) >= 2*wd {
							in2 = append(append([]byte{}, in[wd:]...), in[:wd]...)
							c2 := cd.mk()
							if err := c2.DecodeColumn(proto.NewReader(bytes.NewReader(in2)), rows); err == nil {
								col2 = c2
							} else {
								in2 = in
							}
						}
						col.WriteColumn(w2)
						w2.ChainBuffer(func(b *proto.Buffer) { b.PutRaw([]byte{6}) })
						col2.WriteColumn(w2)
						want2 := append(append(append([]byte{7, 8}, in...), 6), in2...)
						if _, err := w2.Flush(); err != nil || !bytes.Equal(sink2.got, want2) {
							c.Violation("C15/write-column-prefilled/"+cd.name, id, fmt.Sprintf("WriteColumn, one buffered byte, WriteColumn, Flush on a writer whose buffer started with 2 bytes gives %s, want %s", vk.Hex(sink2.got), vk.Hex(want2)), nil)
						}
						line += fmt.Sprintf(" write2=%016x", vk.Hash(sink2.got))
					} else if rows > 0 {
						c.Violation("C15/decode-error/"+cd.name, id, err.Error(), nil)
					}
					// the same column twice in a row from ONE reader, plain and inside compression
					// frames (a second frame already buffered behind the first; one column spread
					// over two frames): both decodes must give the input back
					if err == nil && rows > 0 && target == "fresh" {
						h := len(in) / 2
						for _, fr := range []struct {
							name   string
							stream []byte
							comp   bool
						}{
							{"plain-x2", append(append([]byte{}, in...), in...), false},
							{"lz4-x2", append(refwire.Compress(refwire.MethodLZ4, in), refwire.Compress(refwire.MethodLZ4, in)...), true},
							{"none-x2", append(refwire.Compress(refwire.MethodNone, in), refwire.Compress(refwire.MethodNone, in)...), true},
							{"zstd-split", append(append(refwire.Compress(refwire.MethodZSTD, in[:h]), refwire.Compress(refwire.MethodZSTD, in[h:])...), refwire.Compress(refwire.MethodZSTD, in)...), true},
						} {
							rd := proto.NewReader(bytes.NewReader(fr.stream))
							if fr.comp {
								rd.EnableCompression()
							}
							for k := 0; k < 2; k++ {
								cc := cd.mk()
								derr := cc.DecodeColumn(rd, rows)
								var back proto.Buffer
								if derr == nil {
									cc.EncodeColumn(&back)
								}
								if derr != nil || !bytes.Equal(back.Buf, in) {
									c.Violation("C15/stream-decode/"+fr.name+"/"+cd.name, fmt.Sprintf("%s/%s/column=%d", id, fr.name, k), fmt.Sprintf("column %d of two identical columns read from one %s reader: err=%v, re-encoded %s, input %s", k, fr.name, derr, vk.Hex(back.Buf), vk.Hex(in)), nil)
									break
								}
								line += fmt.Sprintf(" %s%d=%016x", fr.name, k, vk.Hash(back.Buf))
							}
						}
					}
					c.T(cd.name+"|"+name+"/"+target, line)
					c.Eval("whole inputs", 1)
					c.DistinctN(1)
				})
				if msg != "" {
					c.Violation("C15/panic/"+cd.name+"/"+fn, id, msg, nil)
					c.T(cd.name+"|"+name+"/"+target, "panic")
				}
			}
			// long inputs: truncations at both ends and at and next to the sizes readers work in
			// (4096-byte buffer, 64 KiB, every multiple of 1 MiB)
			if len(in) > 64 {
				seen := map[int]bool{}
				var cuts []int
				add := func(k int) {
					if k >= 0 && k < len(in) && !seen[k] {
						seen[k] = true
						cuts = append(cuts, k)
					}
				}
				for k := 0; k < 16; k++ {
					add(k)
					add(len(in) - 1 - k)
				}
				for _, step := range []int{4096, 1 << 16} {
					for m := 1; m <= 3; m++ {
						for d := -1; d <= 1; d++ {
							add(m*step + d)
							add(len(in) - m*step + d)
						}
					}
				}
				for m := 1 << 20; m < len(in)+2; m += 1 << 20 {
					for d := -1; d <= 1; d++ {
						add(m + d)
					}
				}
				for _, k := range cuts {
					id := fmt.Sprintf("%s/%s/cut=%d", cd.name, name, k)
					if c.Only != "" && c.Only != id {
						continue
					}
					msg, fn := vk.Recover(func() {
						col := cd.mk()
						err := col.DecodeColumn(proto.NewReader(bytes.NewReader(in[:k])), rows)
						if err == nil {
							c.Violation("C15/truncation-accepted/"+cd.name, id, "decoding a truncated column succeeds", nil)
						}
						c.T(cd.name+"|"+name+fmt.Sprintf("/cut=%d", k), errClass15(err))
						c.Eval("truncations", 1)
						c.DistinctN(1)
					})
					if msg != "" {
						c.Violation("C15/panic/"+cd.name+"/"+fn, id, msg, nil)
					}
				}
			}
			// every truncation (error classes must agree between the builds)
			if len(in) <= 64 && len(in) > 0 {
				for k := 0; k < len(in); k++ {
					id := fmt.Sprintf("%s/%s/cut=%d", cd.name, name, k)
					if c.Only != "" && c.Only != id {
						continue
					}
					msg, fn := vk.Recover(func() {
						col := cd.mk()
						err := col.DecodeColumn(proto.NewReader(bytes.NewReader(in[:k])), rows)
						if err == nil {
							c.Violation("C15/truncation-accepted/"+cd.name, id, "decoding a truncated column succeeds", nil)
						}
						c.T(cd.name+"|"+name+fmt.Sprintf("/cut=%d", k), errClass15(err))
						c.Eval("truncations", 1)
						c.DistinctN(1)
					})
					if msg != "" {
						c.Violation("C15/panic/"+cd.name+"/"+fn, id, msg, nil)
					}
				}
			}
		}
		if cd.name == "Bool" {
			// bytes outside {0,1}: no equality demanded, only absence of panics
			for v := 2; v < 256; v++ {
				msg, fn := vk.Recover(func() {
					col := cd.mk()
					_ = col.DecodeColumn(proto.NewReader(bytes.NewReader([]byte{0, byte(v), 1})), 3)
				})
				if msg != "" {
					c.Violation("C15/panic/Bool/"+fn, fmt.Sprintf("Bool/byte=%d", v), msg, nil)
				}
				c.Eval("bool-other-bytes", 1)
			}
		}
	}
	c.Sample(map[string]any{"codec": "UInt16", "input": "all 65536 values as one 65536-row column", "transcript_line": "nil rows=65536:<hash of Row(i) values> enc0..enc9=<hash of bytes after 0..9-byte prefix> write=<hash>"})
}
