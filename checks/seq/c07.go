package seq

import (
	"bytes"
	"fmt"
	"strings"

	"github.com/ClickHouse/ch-go/proto"

	"verif/checks/seq/reg"
	"verif/checks/seq/regtab"
	"verif/refcol"
	"verif/refwire"
	"verif/vk"
)

// decodeTyped decodes a one-column block into a fresh typed column of entry e.
func decodeTyped(e reg.Entry, b []byte, rev int, compressed bool) (rows int, err error) {
	fresh := e.New()
	rd := proto.NewReader(bytes.NewReader(b))
	if compressed {
		rd.EnableCompression()
	}
	var blk proto.Block
	err = blk.DecodeBlock(rd, rev, proto.Results{{Name: "col", Data: fresh}})
	return fresh.Rows(), err
}

func decodeAuto(b []byte, rev int, compressed bool) error {
	var res proto.Results
	rd := proto.NewReader(bytes.NewReader(b))
	if compressed {
		rd.EnableCompression()
	}
	var blk proto.Block
	return blk.DecodeBlock(rd, rev, res.Auto())
}

// C07 — a truncated block or message is never accepted.
func C07(c *vk.Ctx) {
	c.Rule("corpus = the C01 blocks (every registry composition, plus name-based enums with a member numbered 0, bare and under Array / Nullable; x value sequences of length <= 1 (incl. the zero-row header block), length <= 2 for compositions of depth <= 1; thorough: length <= 2 everywhere) at revision 54460 and the C17 messages (base and every single-field deviation) at three revisions; for each encoding EVERY proper prefix is decoded through the typed target and, where the type is inferable, through Auto (LowCardinality compositions also as a server may write them, with 16-, 32- and 64-bit keys); the same blocks wrapped in None / LZ4 / ZSTD frames (one frame and two frames) are cut at every position of the framed stream. A prefix that the reference model parses as a complete message is not a truncation and is excluded. Large values (a string of 1 MiB + 11 bytes; thorough also 1 MiB, 2 MiB + 5, 128 KiB + 3) as the only, first, last, array-element, nullable, dictionary and map value of a block (plain and as a sequence of 1 MiB LZ4 frames) and as the last field of TableColumns / Exception / ClientData: cut at every byte of the first and last 80 bytes and around the value's start, within +-3 of every 64 KiB multiple from the stream start and from the value start, and every 4099th byte (a stated subset: cutting 1 MiB everywhere is 10^12 byte copies). Many-row blocks (4095 / 4096 / 8192 rows; thorough also 4097 / 12288 / 65536) of every base column, every composition over Nothing and seven wrappers: cut at every byte of the first and last 80 and within +-3 of the first and last sixteen multiples of 4096. Oracle: decoding returns an error, never nil. distinct_nontrivial = (encoding, cut position, decoder) cases.")
	quick := c.Quick()
	rev := 54460
	// besides the registry: name-based enums that have a member with the number 0 (a
	// zero-filled buffer left behind by a short read then maps to valid names)
	entries := append([]reg.Entry{}, regEntries(c)...)
	for _, ddl := range []string{"Enum8('z' = 0, 'o' = 1)", "Enum16('z' = 0, 'o' = 300)"} {
		ddl := ddl
		entries = append(entries,
			reg.Entry{Label: ddl, New: func() proto.Column { return reg.Enum(ddl) }},
			reg.Entry{Label: "Array(" + ddl + ")", Depth: 1, New: func() proto.Column { return proto.NewArray[string](reg.Enum(ddl)) }},
			reg.Entry{Label: "Nullable(" + ddl + ")", Depth: 1, New: func() proto.Column { return proto.NewColNullable[string](reg.Enum(ddl)) }})
	}
	for ei, e := range entries {
		if c.Only == "" && !c.Mine(int64(ei)) {
			continue
		}
		probe, err := reg.Wrap(e.New(), e.Label)
		if err != nil {
			continue
		}
		na := len(probe.Alphabet())
		L := 1
		if e.Depth <= 1 || !quick {
			L = 2
		}
		inferable := new(proto.ColAuto).Infer(probe.C.Type()) == nil
		for _, idx := range seqsOver(na, L) {
			// (the empty sequence is the header block: one column, no rows; what follows the
			// column's type string is the last thing in it)
			col, _, canon, err := build(e, idx)
			if err != nil {
				continue
			}
			var full []byte
			if msg, _ := vk.Recover(func() { full, err = encodeBlock1(col.C, "col", rev, nil) }); msg != "" || err != nil {
				continue // C01 reports encoders that fail
			}
			base := fmt.Sprintf("%s/%v", e.Label, idx)
			check := func(stream []byte, compressed bool, variant string, plainLen int) {
				for k := 0; k < len(stream); k++ {
					id := fmt.Sprintf("%s/%s/cut=%d", base, variant, k)
					if c.Only != "" && c.Only != id {
						continue
					}
					prefix := stream[:k]
					if !compressed {
						// not a truncation if the prefix is itself a complete block
						r := refwire.NewR(prefix)
						refcol.DecodeBlockBody(r, rev)
						if r.Err == nil && r.Left() == 0 {
							continue
						}
					}
					c.Current(id)
					var rows int
					var derr error
					msg, fn := vk.Recover(func() { rows, derr = decodeTyped(e, prefix, rev, compressed) })
					if msg != "" {
						c.Violation("C07/panic/"+fn, id, msg, nil)
					} else if derr == nil {
						c.Violation("C07/truncated-block-accepted/typed/"+variant, id, fmt.Sprintf("%d of %d bytes decode without error (%d rows reported)", k, len(stream), rows), nil)
					}
					n := int64(1)
					if inferable {
						msg, fn := vk.Recover(func() { derr = decodeAuto(prefix, rev, compressed) })
						if msg != "" {
							c.Violation("C07/panic/"+fn, id, msg, nil)
						} else if derr == nil {
							c.Violation("C07/truncated-block-accepted/auto/"+variant, id, fmt.Sprintf("%d of %d bytes decode without error through Auto", k, len(stream)), nil)
						}
						n++
					}
					c.Eval("blocks/"+variant, n)
					c.DistinctN(n)
				}
			}
			check(full, false, "plain", len(full))
			// the same contents as a server may write them: LowCardinality keys wider than the
			// dictionary needs (the decoder has a branch per key width)
			if strings.Contains(e.Label, "LowCardinality") && !noRef(e.Label) {
				for _, kw := range []int{1, 2, 3} {
					var w refwire.W
					refcol.LCKeyWidth = kw
					msg, _ := vk.Recover(func() {
						refcol.EncodeBlockBody(&w, rev, refwire.BlockInfo{BucketNum: -1}, len(canon), []refcol.BlockCol{{Name: "col", Type: col.T, Vals: canon}})
					})
					refcol.LCKeyWidth = -1
					if msg != "" {
						continue
					}
					if rows, derr := decodeTyped(e, w.B, rev, false); derr != nil || rows != len(canon) {
						continue // C01 reports wide-key blocks that do not decode
					}
					check(w.B, false, fmt.Sprintf("plain-keys%d", 8<<kw), len(w.B))
				}
			}
			// compressed variants for a thinner slice of the corpus (every composition, first sequences)
			if len(idx) == 1 && idx[0] <= 1 {
				for _, m := range []struct {
					name string
					code byte
				}{{"none", refwire.MethodNone}, {"lz4", refwire.MethodLZ4}, {"zstd", refwire.MethodZSTD}} {
					check(refwire.Compress(m.code, full), true, m.name+"-1frame", len(full))
					if len(full) > 8 && (m.code != refwire.MethodZSTD || !quick) {
						h := len(full) / 2
						two := append(refwire.Compress(m.code, full[:h]), refwire.Compress(m.code, full[h:])...)
						check(two, true, m.name+"-2frames", len(full))
					}
				}
			}
		}
	}
	// protocol messages
	if c.Only == "" || true {
		for _, m := range c17Messages() {
			var vecs [][]int
			base := make([]int, m.fields)
			vecs = append(vecs, base)
			for i := 0; i < m.fields; i++ {
				for a := 1; a < m.alph[i]; a++ {
					v := append([]int{}, base...)
					v[i] = a
					vecs = append(vecs, v)
				}
			}
			for vi, vec := range vecs {
				for _, mrev := range []int{54460, 54441, 54429} {
					if c.Only == "" && !c.Mine(int64(vi)) {
						continue
					}
					lib, _, dec, _ := m.build(vec, mrev)
					var enc []byte
					if msg, _ := vk.Recover(func() { enc = lib() }); msg != "" {
						continue
					}
					if _, _, _, err := dec(enc); err != nil {
						continue // C17 reports messages that do not decode at all
					}
					for k := 1; k < len(enc); k++ { // k=0 would cut the packet code the decoder does not read
						id := fmt.Sprintf("msg/%s/%v/rev=%d/cut=%d", m.name, vec, mrev, k)
						if c.Only != "" && c.Only != id {
							continue
						}
						prefix := enc[:k]
						if m.name == "Query" {
							r := refwire.NewR(prefix[1:])
							refwire.DecodeQueryBody(r, mrev)
							if r.Err == nil && r.Left() == 0 {
								continue
							}
						}
						if m.name == "BlockHeader" {
							r := refwire.NewR(prefix)
							refcol.DecodeBlockBody(r, mrev)
							if r.Err == nil && r.Left() == 0 {
								continue
							}
						}
						if (m.name == "ClientData" || m.name == "BlockHeader" || m.name == "Progress" || m.name == "Exception") && k == 0 {
							continue
						}
						c.Current(id)
						var derr error
						msg, fn := vk.Recover(func() { _, _, _, derr = dec(prefix) })
						if msg != "" {
							c.Violation("C07/panic/"+fn, id, msg, nil)
						} else if derr == nil {
							c.Violation("C07/truncated-message-accepted/"+m.name, id, fmt.Sprintf("%d of %d bytes of a %s decode without error", k, len(enc), m.name), nil)
						}
						c.Eval("messages", 1)
						c.DistinctN(1)
					}
				}
			}
		}
	}
	c07Large(c)
	c07ManyRows(c)
	c.Sample(map[string]any{"encoding": "block with one column Array(LowCardinality(String)) holding [[\"a\"]]", "cuts": "every k in 0..len-1, plain; every k of the LZ4-framed stream (inside checksum, header, payload)", "oracle": "DecodeBlock returns an error"})
}

// c07Large: values whose length crosses the size steps the readers allocate by (1 MiB
// chunks for strings whose length came from the wire) and the 128 KiB read buffer. The
// stream is too long to cut everywhere; the cut positions are every byte of the first and
// last 80 bytes, every byte within +-3 of each multiple of 64 KiB counted from the start
// of the stream and from the start of the big value, and a stride of 4099 bytes in between.
func c07Large(c *vk.Ctx) {
	rev := 54460
	sizes := []int{1<<20 + 11}
	if !c.Quick() {
		sizes = append(sizes, 1<<20, 2<<20+5, 1<<17+3)
	}
	big := func(n int) []byte {
		b := make([]byte, n)
		for i := range b {
			b[i] = byte('a' + i%23)
		}
		return b
	}
	cuts := func(total, valStart int) []int {
		seen := map[int]bool{}
		var out []int
		add := func(k int) {
			if k >= 0 && k < total && !seen[k] {
				seen[k] = true
				out = append(out, k)
			}
		}
		for k := 0; k < 80; k++ {
			add(k)
			add(total - 1 - k)
			add(valStart - 40 + k)
		}
		for m := 0; m <= total; m += 1 << 16 {
			for d := -3; d <= 3; d++ {
				add(m + d)
				add(valStart + m + d)
			}
		}
		for k := 0; k < total; k += 4099 {
			add(k)
		}
		return out
	}
	type lcase struct {
		typ  string
		vals func(b []byte) []any
	}
	small := []byte("s")
	cases := []lcase{
		{"String", func(b []byte) []any { return []any{b} }},
		{"String", func(b []byte) []any { return []any{small, b} }},
		{"String", func(b []byte) []any { return []any{b, small} }},
		{"Array(String)", func(b []byte) []any { return []any{[]any{small, b}} }},
		{"Nullable(String)", func(b []byte) []any { return []any{nil, b} }},
		{"LowCardinality(String)", func(b []byte) []any { return []any{small, b} }},
		{"Map(String, String)", func(b []byte) []any { return []any{[]refcol.KV{{K: small, V: b}}} }},
	}
	n := int64(0)
	for ci, lc := range cases {
		for _, sz := range sizes {
			if c.Only == "" && !c.Mine(n) {
				n++
				continue
			}
			n++
			e, ok := regtab.ByLabel(lc.typ)
			if !ok {
				panic("C07: no registry entry " + lc.typ)
			}
			t := refcol.MustParse(lc.typ)
			b := big(sz)
			vals := lc.vals(b)
			var w refwire.W
			refcol.EncodeBlockBody(&w, rev, refwire.BlockInfo{BucketNum: -1}, len(vals), []refcol.BlockCol{{Name: "col", Type: t, Vals: vals}})
			stream := w.B
			if rows, err := decodeTyped(e, stream, rev, false); err != nil || rows != len(vals) {
				c.Violation("C07/large/complete-block-rejected/"+lc.typ, fmt.Sprintf("large/%s#%d/size=%d/full", lc.typ, ci, sz), fmt.Sprintf("the complete block does not decode: rows=%d err=%v", rows, err), nil)
				continue
			}
			valStart := bytes.Index(stream, b[:64])
			for _, variant := range []string{"plain", "lz4"} {
				st := stream
				if variant == "lz4" {
					// the server's compressed blocks hold at most 1 MiB of data each
					st = nil
					for off := 0; off < len(stream); off += 1 << 20 {
						st = append(st, refwire.Compress(refwire.MethodLZ4, stream[off:min(off+1<<20, len(stream))])...)
					}
				}
				for _, k := range cuts(len(st), valStart) {
					id := fmt.Sprintf("large/%s#%d/size=%d/%s/cut=%d", lc.typ, ci, sz, variant, k)
					if c.Only != "" && c.Only != id {
						continue
					}
					c.Current(id)
					var rows int
					var derr error
					msg, fn := vk.Recover(func() { rows, derr = decodeTyped(e, st[:k], rev, variant != "plain") })
					if msg != "" {
						c.Violation("C07/panic/"+fn, id, msg, nil)
					} else if derr == nil {
						c.Violation("C07/truncated-block-accepted/typed/large-"+variant, id, fmt.Sprintf("%d of %d bytes decode without error (%d rows reported)", k, len(st), rows), nil)
					}
					msg, fn = vk.Recover(func() { derr = decodeAuto(st[:k], rev, variant != "plain") })
					if msg != "" {
						c.Violation("C07/panic/"+fn, id, msg, nil)
					} else if derr == nil {
						c.Violation("C07/truncated-block-accepted/auto/large-"+variant, id, fmt.Sprintf("%d of %d bytes decode without error through Auto", k, len(st)), nil)
					}
					c.Eval("large values", 2)
					c.DistinctN(2)
				}
			}
		}
	}
	// messages whose last field is a big string
	for _, sz := range sizes {
		if c.Only == "" && !c.Mine(n) {
			n++
			continue
		}
		n++
		b := string(big(sz))
		type lm struct {
			name string
			enc  []byte
			dec  func(p []byte) error
		}
		var msgs []lm
		{
			var buf proto.Buffer
			proto.TableColumns{First: "t", Second: b}.EncodeAware(&buf, rev)
			msgs = append(msgs, lm{"TableColumns", buf.Buf[1:], func(p []byte) error {
				var d proto.TableColumns
				return d.DecodeAware(proto.NewReader(bytes.NewReader(p)), rev)
			}})
		}
		{
			var buf proto.Buffer
			(&proto.Exception{Code: 60, Name: "n", Message: "m", Stack: b, Nested: false}).EncodeAware(&buf, rev)
			msgs = append(msgs, lm{"Exception", buf.Buf, func(p []byte) error {
				var d proto.Exception
				return d.DecodeAware(proto.NewReader(bytes.NewReader(p)), rev)
			}})
		}
		{
			var buf proto.Buffer
			proto.ClientData{TableName: b}.EncodeAware(&buf, rev)
			msgs = append(msgs, lm{"ClientData", buf.Buf, func(p []byte) error {
				var d proto.ClientData
				return d.DecodeAware(proto.NewReader(bytes.NewReader(p)), rev)
			}})
		}
		for _, m := range msgs {
			if err := m.dec(m.enc); err != nil {
				c.Violation("C07/large/complete-message-rejected/"+m.name, fmt.Sprintf("large/msg/%s/size=%d/full", m.name, sz), err.Error(), nil)
				continue
			}
			for _, k := range cuts(len(m.enc), bytes.Index(m.enc, []byte(b[:64]))) {
				id := fmt.Sprintf("large/msg/%s/size=%d/cut=%d", m.name, sz, k)
				if c.Only != "" && c.Only != id {
					continue
				}
				if m.name == "Exception" && k == len(m.enc)-1 {
					// only the trailing "nested" flag is missing: still a truncation, decoded below
				}
				c.Current(id)
				var derr error
				msg, fn := vk.Recover(func() { derr = m.dec(m.enc[:k]) })
				if msg != "" {
					c.Violation("C07/panic/"+fn, id, msg, nil)
				} else if derr == nil {
					c.Violation("C07/truncated-message-accepted/large-"+m.name, id, fmt.Sprintf("%d of %d bytes of a %s decode without error", k, len(m.enc), m.name), nil)
				}
				c.Eval("large values", 1)
				c.DistinctN(1)
			}
		}
	}
}

// c07ManyRows: blocks with many rows — row counts at and next to the sizes in which readers
// and decoders work (4096-byte buffer, 64 Ki rows) — of every base column and of wrappers
// whose payload is not proportional to a byte count the decoder sees at once. Cut at every
// byte of the first and last 80, and within +-3 of the first and last sixteen multiples of
// 4096 (from the start and from the end of the stream).
func c07ManyRows(c *vk.Ctx) {
	rev := 54460
	var entries []reg.Entry
	for _, e := range regEntries(c) {
		if e.Depth == 0 || strings.Contains(e.Label, "Nothing") {
			entries = append(entries, e)
		}
	}
	for _, l := range []string{"Array(UInt8)", "Nullable(UInt8)", "LowCardinality(UInt8)", "Map(String, UInt8)", "Array(String)", "Nullable(String)", "LowCardinality(String)"} {
		if e, ok := regtab.ByLabel(l); ok {
			entries = append(entries, e)
		}
	}
	rowCounts := []int{4095, 4096, 8192}
	if !c.Quick() {
		rowCounts = append(rowCounts, 4097, 12288, 65536)
	}
	n := int64(0)
	for _, e := range entries {
		if noRef(e.Label) {
			continue
		}
		for _, rows := range rowCounts {
			n++
			if c.Only == "" && !c.Mine(n) {
				continue
			}
			idx := make([]int, rows)
			for i := range idx {
				idx[i] = (i*7 + i/251) % 5
			}
			var stream []byte
			if msg, _ := vk.Recover(func() {
				col, _, _, err := build(e, idx)
				if err != nil {
					return
				}
				stream, _ = encodeBlock1(col.C, "col", rev, nil)
			}); msg != "" || stream == nil {
				continue
			}
			if got, err := decodeTyped(e, stream, rev, false); err != nil || got != rows {
				c.Violation("C07/many/complete-block-rejected/"+e.Label, fmt.Sprintf("many/%s/rows=%d/full", e.Label, rows), fmt.Sprintf("the complete block does not decode: rows=%d err=%v", got, err), nil)
				continue
			}
			total := len(stream)
			seen := map[int]bool{}
			var cuts []int
			add := func(k int) {
				if k >= 0 && k < total && !seen[k] {
					seen[k] = true
					cuts = append(cuts, k)
				}
			}
			for k := 0; k < 80; k++ {
				add(k)
				add(total - 1 - k)
			}
			for m := 1; m <= 16; m++ {
				for d := -3; d <= 3; d++ {
					add(m*4096 + d)
					add(total - m*4096 + d)
				}
			}
			inferable := new(proto.ColAuto).Infer(proto.ColumnType(e.New().Type())) == nil
			for _, k := range cuts {
				id := fmt.Sprintf("many/%s/rows=%d/cut=%d", e.Label, rows, k)
				if c.Only != "" && c.Only != id {
					continue
				}
				c.Current(id)
				var got int
				var derr error
				msg, fn := vk.Recover(func() { got, derr = decodeTyped(e, stream[:k], rev, false) })
				if msg != "" {
					c.Violation("C07/panic/"+fn, id, msg, nil)
				} else if derr == nil {
					c.Violation("C07/truncated-block-accepted/typed/many-rows", id, fmt.Sprintf("%d of %d bytes decode without error (%d rows reported)", k, total, got), nil)
				}
				if inferable {
					msg, fn = vk.Recover(func() { derr = decodeAuto(stream[:k], rev, false) })
					if msg != "" {
						c.Violation("C07/panic/"+fn, id, msg, nil)
					} else if derr == nil {
						c.Violation("C07/truncated-block-accepted/auto/many-rows", id, fmt.Sprintf("%d of %d bytes decode without error through Auto", k, total), nil)
					}
				}
				c.Eval("many rows", 1)
				c.DistinctN(1)
			}
		}
	}
}
