package seq

import (
	"bytes"
	"fmt"

	"github.com/ClickHouse/ch-go/proto"

	"verif/checks/seq/reg"
	"verif/refcol"
	"verif/refwire"
	"verif/vk"
)

// decodeTyped decodes a one-column block into a fresh typed column of entry e.
func decodeTyped(e reg.Entry, b []byte, rev int, compressed bool) (rows int, err error) {
	fresh := e.New()
	rd := proto.NewReader(bytes.NewReader(b))
	if compressed {
		rd.EnableCompression()
	}
	var blk proto.Block
	err = blk.DecodeBlock(rd, rev, proto.Results{{Name: "col", Data: fresh}})
	return fresh.Rows(), err
}

func decodeAuto(b []byte, rev int, compressed bool) error {
	var res proto.Results
	rd := proto.NewReader(bytes.NewReader(b))
	if compressed {
		rd.EnableCompression()
	}
	var blk proto.Block
	return blk.DecodeBlock(rd, rev, res.Auto())
}

// C07 — a truncated block or message is never accepted.
func C07(c *vk.Ctx) {
	c.Rule("corpus = the C01 blocks (every registry composition x value sequences of length <= 1, length <= 2 for compositions of depth <= 1; thorough: length <= 2 everywhere) at revision 54460 and the C17 messages (base and every single-field deviation) at three revisions; for each encoding EVERY proper prefix is decoded through the typed target and, where the type is inferable, through Auto; the same blocks wrapped in None / LZ4 / ZSTD frames (one frame and two frames) are cut at every position of the framed stream. A prefix that the reference model parses as a complete message is not a truncation and is excluded. Oracle: decoding returns an error, never nil. distinct_nontrivial = (encoding, cut position, decoder) cases.")
	quick := c.Quick()
	rev := 54460
	for ei, e := range regEntries(c) {
		if c.Only == "" && !c.Mine(int64(ei)) {
			continue
		}
		probe, err := reg.Wrap(e.New(), e.Label)
		if err != nil {
			continue
		}
		na := len(probe.Alphabet())
		L := 1
		if e.Depth <= 1 || !quick {
			L = 2
		}
		inferable := new(proto.ColAuto).Infer(probe.C.Type()) == nil
		for _, idx := range seqsOver(na, L) {
			if len(idx) == 0 {
				continue
			}
			col, _, _, err := build(e, idx)
			if err != nil {
				continue
			}
			var full []byte
			if msg, _ := vk.Recover(func() { full, err = encodeBlock1(col.C, "col", rev, nil) }); msg != "" || err != nil {
				continue // C01 reports encoders that fail
			}
			base := fmt.Sprintf("%s/%v", e.Label, idx)
			check := func(stream []byte, compressed bool, variant string, plainLen int) {
				for k := 0; k < len(stream); k++ {
					id := fmt.Sprintf("%s/%s/cut=%d", base, variant, k)
					if c.Only != "" && c.Only != id {
						continue
					}
					prefix := stream[:k]
					if !compressed {
						// not a truncation if the prefix is itself a complete block
						r := refwire.NewR(prefix)
						refcol.DecodeBlockBody(r, rev)
						if r.Err == nil && r.Left() == 0 {
							continue
						}
					}
					c.Current(id)
					var rows int
					var derr error
					msg, fn := vk.Recover(func() { rows, derr = decodeTyped(e, prefix, rev, compressed) })
					if msg != "" {
						c.Violation("C07/panic/"+fn, id, msg, nil)
					} else if derr == nil {
						c.Violation("C07/truncated-block-accepted/typed/"+variant, id, fmt.Sprintf("%d of %d bytes decode without error (%d rows reported)", k, len(stream), rows), nil)
					}
					n := int64(1)
					if inferable {
						msg, fn := vk.Recover(func() { derr = decodeAuto(prefix, rev, compressed) })
						if msg != "" {
							c.Violation("C07/panic/"+fn, id, msg, nil)
						} else if derr == nil {
							c.Violation("C07/truncated-block-accepted/auto/"+variant, id, fmt.Sprintf("%d of %d bytes decode without error through Auto", k, len(stream)), nil)
						}
						n++
					}
					c.Eval("blocks/"+variant, n)
					c.DistinctN(n)
				}
			}
			check(full, false, "plain", len(full))
			// compressed variants for a thinner slice of the corpus (every composition, first sequences)
			if len(idx) == 1 && idx[0] <= 1 {
				for _, m := range []struct {
					name string
					code byte
				}{{"none", refwire.MethodNone}, {"lz4", refwire.MethodLZ4}, {"zstd", refwire.MethodZSTD}} {
					check(refwire.Compress(m.code, full), true, m.name+"-1frame", len(full))
					if len(full) > 8 && (m.code != refwire.MethodZSTD || !quick) {
						h := len(full) / 2
						two := append(refwire.Compress(m.code, full[:h]), refwire.Compress(m.code, full[h:])...)
						check(two, true, m.name+"-2frames", len(full))
					}
				}
			}
		}
	}
	// protocol messages
	if c.Only == "" || true {
		for _, m := range c17Messages() {
			var vecs [][]int
			base := make([]int, m.fields)
			vecs = append(vecs, base)
			for i := 0; i < m.fields; i++ {
				for a := 1; a < m.alph[i]; a++ {
					v := append([]int{}, base...)
					v[i] = a
					vecs = append(vecs, v)
				}
			}
			for vi, vec := range vecs {
				for _, mrev := range []int{54460, 54441, 54429} {
					if c.Only == "" && !c.Mine(int64(vi)) {
						continue
					}
					lib, _, dec, _ := m.build(vec, mrev)
					var enc []byte
					if msg, _ := vk.Recover(func() { enc = lib() }); msg != "" {
						continue
					}
					if _, _, _, err := dec(enc); err != nil {
						continue // C17 reports messages that do not decode at all
					}
					for k := 1; k < len(enc); k++ { // k=0 would cut the packet code the decoder does not read
						id := fmt.Sprintf("msg/%s/%v/rev=%d/cut=%d", m.name, vec, mrev, k)
						if c.Only != "" && c.Only != id {
							continue
						}
						prefix := enc[:k]
						if m.name == "Query" {
							r := refwire.NewR(prefix[1:])
							refwire.DecodeQueryBody(r, mrev)
							if r.Err == nil && r.Left() == 0 {
								continue
							}
						}
						if m.name == "BlockHeader" {
							r := refwire.NewR(prefix)
							refcol.DecodeBlockBody(r, mrev)
							if r.Err == nil && r.Left() == 0 {
								continue
							}
						}
						if (m.name == "ClientData" || m.name == "BlockHeader" || m.name == "Progress" || m.name == "Exception") && k == 0 {
							continue
						}
						c.Current(id)
						var derr error
						msg, fn := vk.Recover(func() { _, _, _, derr = dec(prefix) })
						if msg != "" {
							c.Violation("C07/panic/"+fn, id, msg, nil)
						} else if derr == nil {
							c.Violation("C07/truncated-message-accepted/"+m.name, id, fmt.Sprintf("%d of %d bytes of a %s decode without error", k, len(enc), m.name), nil)
						}
						c.Eval("messages", 1)
						c.DistinctN(1)
					}
				}
			}
		}
	}
	c.Sample(map[string]any{"encoding": "block with one column Array(LowCardinality(String)) holding [[\"a\"]]", "cuts": "every k in 0..len-1, plain; every k of the LZ4-framed stream (inside checksum, header, payload)", "oracle": "DecodeBlock returns an error"})
}
