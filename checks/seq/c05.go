package seq

import (
	"bytes"
	"encoding/binary"
	"errors"
	"fmt"
	"io"
	"runtime"

	"github.com/ClickHouse/ch-go/compress"
	"github.com/ClickHouse/ch-go/proto"

	"verif/refwire"
	"verif/vk"
)

func c05Payload(kind, n int, seed int64) []byte {
	b := make([]byte, n)
	switch kind {
	case 0: // zero
	case 1: // counter
		for i := range b {
			b[i] = byte(i)
		}
	case 2: // incompressible
		copy(b, vk.NewFiller(seed, uint64(n)*7+1).Bytes(n))
	case 3: // repetitive
		for i := range b {
			b[i] = "abcabcabd"[i%9]
		}
	}
	return b
}

type c05Method struct {
	name  string
	m     compress.Method
	level compress.Level
}

func c05Methods() []c05Method {
	ms := []c05Method{{"None", compress.None, 0}, {"LZ4", compress.LZ4, 0}, {"ZSTD", compress.ZSTD, 0}, {"LZ4HC-default", compress.LZ4HC, 0}}
	for l := 1; l <= 12; l++ {
		ms = append(ms, c05Method{fmt.Sprintf("LZ4HC-%d", l), compress.LZ4HC, compress.Level(l)})
	}
	return ms
}

// readAll drains a compress.Reader with the given read-buffer size; the underlying stream
// ends with io.EOF at a frame boundary, which the reader reports as an error wrapping EOF.
func c05ReadAll(r *compress.Reader, bufSize int) ([]byte, error) {
	var out []byte
	buf := make([]byte, bufSize)
	for {
		n, err := r.Read(buf)
		out = append(out, buf[:n]...)
		if err != nil {
			if errors.Is(err, io.EOF) {
				return out, nil
			}
			return out, err
		}
		if n == 0 && bufSize > 0 {
			// zero-length frames give empty reads; go on (bounded by the stream)
			continue
		}
	}
}

// growStream is an io.Reader over a byte slice that can be extended between reads.
type growStream struct {
	b   []byte
	pos int
}

func (g *growStream) Read(p []byte) (int, error) {
	if g.pos >= len(g.b) {
		return 0, io.EOF
	}
	n := copy(p, g.b[g.pos:])
	g.pos += n
	return n, nil
}

// C05 — compressed frames round-trip and any corrupted frame is rejected.
func C05(c *vk.Ctx) {
	c.Rule("payloads of every length 0..N (quick 512, thorough 4096) x {zero, counter, incompressible, repetitive} x {None, LZ4, ZSTD, LZ4HC default and levels 1..12}, sizes 64 KiB +-1 / 1 MiB / 4 MiB once per method; library frames are also parsed by the reference frame model and reference frames are read by the library; all sequences of <= 3 frames over a 5-payload alphabet with mixed methods x read sizes 1..64 and len-1, len, len+1; corruption: every byte offset of representative frames x {8 bit flips, 00, FF} (thorough: all 255 other values); size fields set to limit+1, 2^31, 2^32-1 with the checksum recomputed, allocation measured; explicit-state search over histories of <= 4 (thorough 5) steps of {append good frame, append corrupted frame, Read n}; strings of 1 MiB -1 / +0 / +1 and 2 MiB + 5 read through proto.Reader with compression enabled (frames of <= 1 MiB, three methods), whole and with one byte altered in each frame. distinct_nontrivial = distinct (payload, method) / (frame, mutation) / history cases.")
	quick := c.Quick()
	maxLen := 512
	if !quick {
		maxLen = 4096
	}
	methods := c05Methods()

	roundTrip := func(id string, m c05Method, payload []byte, w *compress.Writer) []byte {
		c.Current(id)
		if err := w.Compress(payload); err != nil {
			c.Violation("C05/compress-error/"+m.name, id, err.Error(), nil)
			return nil
		}
		frame := append([]byte(nil), w.Data...)
		got, err := c05ReadAll(compress.NewReader(bytes.NewReader(frame)), 4096)
		if err != nil || !bytes.Equal(got, payload) {
			c.Violation("C05/round-trip/"+m.name, id, fmt.Sprintf("len %d: err=%v, got %s", len(payload), err, vk.Hex(got)), nil)
		}
		// independent reading of the library's frame
		f, ferr := refwire.ParseFrame(frame)
		if ferr != nil || f.Total != len(frame) || !f.ChecksumOK {
			c.Violation("C05/frame-layout/"+m.name, id, fmt.Sprintf("reference parser: err=%v total=%d of %d checksum=%v", ferr, f.Total, len(frame), f.ChecksumOK), nil)
		} else if p, derr := f.Decompress(); derr != nil || !bytes.Equal(p, payload) {
			c.Violation("C05/frame-payload/"+m.name, id, fmt.Sprintf("reference decompression: err=%v", derr), nil)
		}
		c.Eval("round-trip", 1)
		c.DistinctN(1)
		return frame
	}

	writers := map[string]*compress.Writer{}
	wr := func(m c05Method) *compress.Writer {
		if w, ok := writers[m.name]; ok {
			return w
		}
		w := compress.NewWriter(m.level, m.m)
		writers[m.name] = w
		return w
	}
	// 1. every length x kind x method (the writer object is reused, as the client reuses it)
	for n := 0; n <= maxLen; n++ {
		for kind := 0; kind < 4; kind++ {
			for _, m := range methods {
				id := fmt.Sprintf("rt/%s/kind=%d/len=%d", m.name, kind, n)
				if !c.Next(id) {
					continue
				}
				roundTrip(id, m, c05Payload(kind, n, c.Seed), wr(m))
			}
		}
	}
	for _, n := range []int{65535, 65536, 65537, 1 << 20, 4 << 20} {
		for kind := 1; kind < 4; kind++ {
			for _, m := range methods[:4] {
				id := fmt.Sprintf("rt/%s/kind=%d/len=%d", m.name, kind, n)
				if !c.Next(id) {
					continue
				}
				roundTrip(id, m, c05Payload(kind, n, c.Seed), wr(m))
			}
		}
	}
	// reference frames read by the library
	for n := 0; n <= 300; n++ {
		for kind := 0; kind < 4; kind++ {
			for _, meth := range []byte{refwire.MethodNone, refwire.MethodLZ4, refwire.MethodZSTD} {
				id := fmt.Sprintf("ref-frame/%#x/kind=%d/len=%d", meth, kind, n)
				if !c.Next(id) {
					continue
				}
				c.Current(id)
				p := c05Payload(kind, n, c.Seed)
				got, err := c05ReadAll(compress.NewReader(bytes.NewReader(refwire.Compress(meth, p))), 77)
				if err != nil || !bytes.Equal(got, p) {
					c.Violation(fmt.Sprintf("C05/reads-reference-frame/%#x", meth), id, fmt.Sprintf("err=%v", err), nil)
				}
				c.Eval("reference-frames", 1)
				c.DistinctN(1)
			}
		}
	}

	// 2. frame sequences x read sizes
	alpha := [][]byte{{}, {7}, c05Payload(1, 37, 0), c05Payload(3, 300, 0), c05Payload(2, 64, c.Seed)}
	seqMethods := []c05Method{methods[0], methods[1], methods[2], methods[3]}
	var seqs [][]int
	for a := 0; a < 5; a++ {
		seqs = append(seqs, []int{a})
		for b := 0; b < 5; b++ {
			seqs = append(seqs, []int{a, b})
			for d := 0; d < 5; d++ {
				seqs = append(seqs, []int{a, b, d})
			}
		}
	}
	for si, s := range seqs {
		for mi := 0; mi < 4; mi++ {
			id := fmt.Sprintf("seq/%v/m=%d", s, mi)
			if !c.Next(id) {
				continue
			}
			c.Current(id)
			var stream, want []byte
			for k, a := range s {
				m := seqMethods[(mi+k)%4]
				w := wr(m)
				if err := w.Compress(alpha[a]); err != nil {
					c.Violation("C05/compress-error/"+m.name, id, err.Error(), nil)
				}
				stream = append(stream, w.Data...)
				want = append(want, alpha[a]...)
			}
			sizes := []int{len(want) - 1, len(want), len(want) + 1}
			for b := 1; b <= 64; b++ {
				sizes = append(sizes, b)
			}
			nsz := 0
			for _, bs := range sizes {
				if bs <= 0 {
					continue
				}
				nsz++
				got, err := c05ReadAll(compress.NewReader(bytes.NewReader(stream)), bs)
				if err != nil || !bytes.Equal(got, want) {
					c.Violation("C05/frame-sequence", fmt.Sprintf("%s/read=%d", id, bs), fmt.Sprintf("err=%v got %d bytes want %d", err, len(got), len(want)), nil)
				}
				c.Eval("sequences x read sizes", 1)
			}
			c.DistinctN(int64(nsz))
			_ = si
		}
	}

	// 3. corruption of every byte of representative frames
	for _, m := range seqMethods {
		for _, a := range []int{0, 1, 2, 3} {
			w := wr(m)
			_ = w.Compress(alpha[a])
			frame := append([]byte(nil), w.Data...)
			for off := 0; off < len(frame); off++ {
				var vals []byte
				if quick {
					for bit := 0; bit < 8; bit++ {
						vals = append(vals, frame[off]^(1<<bit))
					}
					vals = append(vals, 0x00, 0xff)
				} else {
					for v := 0; v < 256; v++ {
						vals = append(vals, byte(v))
					}
				}
				for _, v := range vals {
					if v == frame[off] {
						continue
					}
					id := fmt.Sprintf("corrupt/%s/payload=%d/off=%d/val=%#x", m.name, a, off, v)
					if !c.Next(id) {
						continue
					}
					c.Current(id)
					mut := append([]byte(nil), frame...)
					mut[off] = v
					// a second, good frame follows: whatever happens, its bytes must not be mixed up
					_ = w.Compress([]byte("NEXT-FRAME"))
					stream := append(append([]byte(nil), mut...), w.Data...)
					r := compress.NewReader(bytes.NewReader(stream))
					buf := make([]byte, 64)
					n, err := r.Read(buf)
					region := "payload"
					switch {
					case off < 16:
						region = "checksum"
					case off == 16:
						region = "method"
					case off < 25:
						region = "size-fields"
					}
					if err == nil {
						c.Violation("C05/corrupted-frame-accepted/"+region, id, fmt.Sprintf("Read returned %d bytes (%s) and no error", n, vk.Hex(buf[:n])), nil)
					} else if region != "size-fields" {
						var ce *compress.CorruptedDataErr
						if !errors.As(err, &ce) {
							c.Violation("C05/no-corruption-error/"+region, id, fmt.Sprintf("length fields intact but the error is not a CorruptedDataErr: %v", err), nil)
						} else {
							var ref [16]byte
							binary.LittleEndian.PutUint64(ref[:8], ce.Reference.Low)
							binary.LittleEndian.PutUint64(ref[8:], ce.Reference.High)
							var act [16]byte
							binary.LittleEndian.PutUint64(act[:8], ce.Actual.Low)
							binary.LittleEndian.PutUint64(act[8:], ce.Actual.High)
							wantAct := refwire.Checksum(mut[16:])
							if !bytes.Equal(ref[:], mut[:16]) || act != wantAct {
								c.Violation("C05/corruption-error-hashes/"+region, id, fmt.Sprintf("reference=%x actual=%x, frame carries %x and hashes to %x", ref, act, mut[:16], wantAct), nil)
							}
						}
					}
					// reads that follow the failure
					var later []byte
					for i := 0; i < 4; i++ {
						k, e := r.Read(buf)
						later = append(later, buf[:k]...)
						if e != nil && k == 0 {
							break
						}
					}
					if n > 0 || !bytes.HasPrefix([]byte("NEXT-FRAME"), later) {
						c.Violation("C05/bytes-after-failure/"+region, id, fmt.Sprintf("after the rejected frame the reader handed out %s — not bytes of a frame whose checksum verified", vk.Hex(append(buf[:n:n], later...))), nil)
					}
					c.Eval("single-byte corruption", 1)
					c.DistinctN(1)
					if region == "size-fields" {
						// an altered size field that stays within the documented limits makes the reader
						// allocate up to 2 x 128 MiB by design; hundreds of such cases in a row must not
						// add up to the worker's address-space limit (the heap never shrinks its mappings)
						runtime.GC()
					}
				}
			}
		}
	}

	// 4. oversize fields with a valid checksum: rejected before allocating
	if c.Shard == 0 || c.Only != "" {
		for _, field := range []string{"raw", "data"} {
			for _, v := range []uint32{128<<20 + 1 + 9, 1 << 31, math32Max} {
				id := fmt.Sprintf("oversize/%s=%d", field, v)
				if !c.Next(id) && c.Only != "" {
					continue
				}
				c.Current(id)
				f := refwire.MakeFrame(refwire.MethodNone, []byte("0123456789"), 10)
				if field == "raw" {
					binary.LittleEndian.PutUint32(f[17:], v)
				} else {
					binary.LittleEndian.PutUint32(f[21:], v)
				}
				h := refwire.Checksum(f[16:])
				copy(f, h[:])
				var ms0, ms1 runtime.MemStats
				runtime.ReadMemStats(&ms0)
				r := compress.NewReader(bytes.NewReader(f))
				_, err := r.Read(make([]byte, 16))
				runtime.ReadMemStats(&ms1)
				if err == nil {
					c.Violation("C05/oversize-accepted/"+field, id, "frame with an out-of-range size field was read without error", nil)
				}
				if d := ms1.TotalAlloc - ms0.TotalAlloc; d > 1<<20 {
					c.Violation("C05/oversize-allocates/"+field, id, fmt.Sprintf("%d bytes allocated before the size field was rejected", d), nil)
				}
				c.Eval("oversize", 1)
				c.DistinctN(1)
			}
		}
	}

	// 5. histories: append good frame / append corrupted frame / read n, on one reader
	depth := 4
	if !quick {
		depth = 5
	}
	good := [][]byte{[]byte("AAAAAAAAAAAAAAAAAAAAAAAA"), []byte("bbbbbbbb")}
	ops := []c05op{{"good", 0}, {"good", 1}, {"bad-payload", 0}, {"bad-checksum", 1}, {"bad-method", 0}, {"read", 5}, {"read", 100}}
	var hist [][]int
	var rec func(pre []int)
	rec = func(pre []int) {
		if len(pre) > 0 {
			hist = append(hist, append([]int{}, pre...))
		}
		if len(pre) == depth {
			return
		}
		for i := range ops {
			rec(append(pre, i))
		}
	}
	rec(nil)
	states := map[uint64]bool{}
	transitions := int64(0)
	for _, h := range hist {
		id := fmt.Sprintf("hist/%v", h)
		if !c.Next(id) {
			continue
		}
		c.Current(id)
		gs := &growStream{}
		r := compress.NewReader(gs)
		var verified, returned []byte
		w := wr(methods[1])
		bad := false
		// silent: bytes of a frame that follows an altered one were handed out although no Read
		// has reported the altered frame yet (the rejection was swallowed)
		silent := false
		beforeBad, errSeen := -1, false
		read := func(n int) {
			buf := make([]byte, n)
			k, err := r.Read(buf)
			returned = append(returned, buf[:k]...)
			if err != nil && err != io.EOF {
				errSeen = true
			}
			if beforeBad >= 0 && len(returned) > beforeBad && !errSeen {
				silent = true
			}
		}
		for _, oi := range h {
			o := ops[oi]
			transitions++
			switch o.kind {
			case "good":
				_ = w.Compress(good[o.arg])
				gs.b = append(gs.b, w.Data...)
				verified = append(verified, good[o.arg]...)
			case "bad-payload", "bad-checksum", "bad-method":
				_ = w.Compress(good[o.arg])
				f := append([]byte(nil), w.Data...)
				switch o.kind {
				case "bad-payload":
					f[len(f)-1] ^= 0x10
				case "bad-checksum":
					f[3] ^= 0x01
				case "bad-method":
					f[16] ^= 0x80
				}
				gs.b = append(gs.b, f...)
				if beforeBad < 0 {
					beforeBad = len(verified)
				}
			case "read":
				read(o.arg)
			}
			if !bytes.HasPrefix(verified, returned) {
				bad = true
			}
			states[vk.Hash(verified, returned, len(gs.b)-gs.pos)] = true
		}
		// drain what is left: a swallowed rejection shows when the frames behind it are served
		for i := 0; i < 6 && !errSeen; i++ {
			before := len(returned)
			read(64)
			if len(returned) == before {
				break
			}
		}
		if !bytes.HasPrefix(verified, returned) {
			bad = true
		}
		if silent {
			c.Violation("C05/history/altered-frame-skipped-silently", id, fmt.Sprintf("ops %v (then drained): the reader handed out %s, which reaches past the altered frame, and no Read had reported an error", opNames05(h, ops), vk.Hex(returned)), nil)
		}
		if bad {
			c.Violation("C05/history/unverified-bytes-handed-out", id, fmt.Sprintf("ops %v: reader returned %s, verified payloads so far %s", opNames05(h, ops), vk.Hex(returned), vk.Hex(verified)), nil)
		}
		c.Eval("histories", 1)
		c.DistinctN(1)
	}
	c.AddStates(int64(len(states)), transitions, int64(len(hist)))
	// the compressed stream as the protocol reader consumes it: a string longer than the 1 MiB
	// step in which proto.Reader takes strings, spread over frames of at most 1 MiB; every read
	// path of the reader must go through the decompressor (the value read must be the payload,
	// and an altered byte in any frame must give an error)
	if c.Shard == 0 || c.Only != "" {
		for _, n := range []int{1<<20 - 1, 1 << 20, 1<<20 + 1, 2<<20 + 5} {
			for _, method := range []byte{refwire.MethodLZ4, refwire.MethodZSTD, refwire.MethodNone} {
				id := fmt.Sprintf("proto-reader/string=%d/method=%#x", n, method)
				if c.Only != "" && c.Only != id {
					continue
				}
				c.Current(id)
				val := c05Payload(2, n, int64(n))
				var plain refwire.W
				plain.UVarint(uint64(n))
				plain.Raw(val)
				plain.Byte(0x7e) // a sentinel after the string
				var frames []byte
				var starts []int
				for off := 0; off < len(plain.B); off += 1 << 20 {
					starts = append(starts, len(frames))
					frames = append(frames, refwire.Compress(method, plain.B[off:min(off+1<<20, len(plain.B))])...)
				}
				msg, fn := vk.Recover(func() {
					r := proto.NewReader(bytes.NewReader(frames))
					r.EnableCompression()
					got, err := r.StrBytes()
					if err != nil || !bytes.Equal(got, val) {
						c.Violation("C05/proto-reader/round-trip", id, fmt.Sprintf("a %d-byte string read through the compressed reader: err=%v, %d bytes returned, equal=%v", n, err, len(got), bytes.Equal(got, val)), nil)
						return
					}
					if b, err := r.ReadByte(); err != nil || b != 0x7e {
						c.Violation("C05/proto-reader/stream-position", id, fmt.Sprintf("after the string the reader is not at the sentinel: byte %#x err=%v", b, err), nil)
						return
					}
					// one byte altered in each frame in turn
					for fi, st := range starts {
						bad := append([]byte{}, frames...)
						bad[st+8] ^= 0x10 // a byte of the frame checksum itself
						rb := proto.NewReader(bytes.NewReader(bad))
						rb.EnableCompression()
						if got, err := rb.StrBytes(); err == nil {
							c.Violation("C05/proto-reader/altered-frame-accepted", fmt.Sprintf("%s/frame=%d", id, fi), fmt.Sprintf("frame %d altered at byte 8: the string is read without error (%d bytes)", fi, len(got)), nil)
							return
						}
						c.Eval("proto reader", 1)
						c.DistinctN(1)
					}
				})
				if msg != "" {
					c.Violation("C05/panic/"+fn, id, msg, nil)
				}
				c.Eval("proto reader", 1)
				c.DistinctN(1)
			}
		}
	}
	c.Sample(map[string]any{"history": []string{"good frame A", "corrupted frame (payload bit flipped)", "Read(5)", "Read(100)"}, "oracle": "bytes returned so far are a prefix of the payloads of frames whose checksum verified"})
}

const math32Max = ^uint32(0)

type c05op struct {
	kind string
	arg  int
}

func opNames05(h []int, ops []c05op) []string {
	var out []string
	for _, i := range h {
		out = append(out, fmt.Sprintf("%s(%d)", ops[i].kind, ops[i].arg))
	}
	return out
}
