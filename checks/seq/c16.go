package seq

import (
	"bytes"
	"fmt"
	"reflect"
	"sort"
	"strings"
	"unsafe"

	"github.com/ClickHouse/ch-go/proto"

	"verif/checks/seq/reg"
	"verif/checks/seq/regtab"
	"verif/refcol"
	"verif/refwire"
	"verif/vk"
)

// deepHash fingerprints the complete object graph below v, exported or not.
func deepHash(v reflect.Value, seen map[uintptr]bool) uint64 {
	if !v.IsValid() {
		return 1
	}
	switch v.Kind() {
	case reflect.Pointer:
		if v.IsNil() {
			return 2
		}
		p := v.Pointer()
		if seen[p] {
			return 3
		}
		seen[p] = true
		return vk.Hash("p", deepHash(v.Elem(), seen))
	case reflect.Interface:
		if v.IsNil() {
			return 4
		}
		return vk.Hash("i", v.Elem().Type().String(), deepHash(v.Elem(), seen))
	case reflect.Struct:
		h := uint64(5)
		for i := 0; i < v.NumField(); i++ {
			f := v.Field(i)
			if !f.CanInterface() && f.CanAddr() {
				f = reflect.NewAt(f.Type(), unsafe.Pointer(f.UnsafeAddr())).Elem()
			}
			h = vk.Hash(h, v.Type().Field(i).Name, deepHash(f, seen))
		}
		return h
	case reflect.Slice:
		if v.Type().Elem().Kind() == reflect.Uint8 {
			return vk.Hash("b", v.Len(), v.Bytes())
		}
		h := vk.Hash("s", v.Len())
		for i := 0; i < v.Len(); i++ {
			h = vk.Hash(h, deepHash(v.Index(i), seen))
		}
		return h
	case reflect.Array:
		h := uint64(6)
		for i := 0; i < v.Len(); i++ {
			h = vk.Hash(h, deepHash(v.Index(i), seen))
		}
		return h
	case reflect.Map:
		var hs []uint64
		it := v.MapRange()
		for it.Next() {
			hs = append(hs, vk.Hash(deepHash(it.Key(), seen), deepHash(it.Value(), seen)))
		}
		sort.Slice(hs, func(i, j int) bool { return hs[i] < hs[j] })
		return vk.Hash("m", fmt.Sprint(hs))
	case reflect.Func, reflect.Chan, reflect.UnsafePointer:
		return 7
	case reflect.String:
		return vk.Hash("str", v.String())
	case reflect.Bool:
		if v.Bool() {
			return 8
		}
		return 9
	case reflect.Float32, reflect.Float64:
		return vk.Hash("f", fmt.Sprint(v.Float()))
	case reflect.Int, reflect.Int8, reflect.Int16, reflect.Int32, reflect.Int64:
		return vk.Hash("n", v.Int())
	default:
		return vk.Hash("u", v.Uint())
	}
}

// c16Labels: the compositions explored (chosen from the registry by label).
var c16Quick = []string{"String", "FixedString(3)", "UInt64", "Bool", "UUID", "LowCardinality(String)", "LowCardinality(UInt8)", "Array(String)", "Array(LowCardinality(String))",
	"Map(String, String)", "Nullable(String)", "Enum8('a'=1,'b'=2,'c'=-3)", "DateTime64(3)", "Tuple(String, String)", "Array(Nullable(String))", "Map(String, LowCardinality(String))",
	"LowCardinality(Nullable(String))", "Nullable(Enum8('a'=1,'b'=2,'c'=-3))", "LowCardinality(Enum8('a'=1,'b'=2,'c'=-3))", "JSON", "Array(Array(String))"}

type op16 struct {
	name string
	run  func(h *hist16) error
}

type hist16 struct {
	e     reg.Entry
	col   *reg.Col
	alpha []reg.Val
	model []any
	rev   int
	dec   [][]any // decode payload value sets (canonical)
}

func (h *hist16) appendIdx(i int) {
	v := h.alpha[i%len(h.alpha)]
	h.col.Append(v)
	h.model = append(h.model, h.col.Canon(v))
}

func (h *hist16) blockBytes(vals []any) []byte {
	var w refwire.W
	refcol.EncodeBlockBody(&w, h.rev, refwire.BlockInfo{BucketNum: -1}, len(vals), []refcol.BlockCol{{Name: "col", Type: h.col.T, Vals: vals}})
	return w.B
}

func (h *hist16) decode(vals []any, cut bool) error { return h.decodeW(vals, cut, -1) }

// decodeW: kw >= 0 makes the reference server write LowCardinality keys wider than needed.
func (h *hist16) decodeW(vals []any, cut bool, kw int) error {
	refcol.LCKeyWidth = kw
	b := h.blockBytes(vals)
	refcol.LCKeyWidth = -1
	if cut {
		b = b[:len(b)-1]
	}
	var blk proto.Block
	err := blk.DecodeBlock(proto.NewReader(bytes.NewReader(b)), h.rev, proto.Results{{Name: "col", Data: h.col.C}})
	if cut {
		if err == nil {
			return fmt.Errorf("truncated block decoded without error")
		}
		h.col.C.Reset()
		h.model = nil
		return nil
	}
	if err != nil {
		return fmt.Errorf("decode: %w", err)
	}
	h.model = append([]any{}, vals...)
	return nil
}

func (h *hist16) decodeSibling(own, other string) error {
	t2, err := refcol.Parse(strings.ReplaceAll(h.col.T.Name, own, other))
	if err != nil {
		return fmt.Errorf("harness: %v", err)
	}
	var w refwire.W
	refcol.EncodeBlockBody(&w, h.rev, refwire.BlockInfo{BucketNum: -1}, len(h.dec[0]), []refcol.BlockCol{{Name: "col", Type: t2, Vals: h.dec[0]}})
	fresh := h.e.New()
	var rows [2][]any
	var types [2]proto.ColumnType
	for i, col := range []proto.Column{h.col.C, fresh} {
		var blk proto.Block
		if err := blk.DecodeBlock(proto.NewReader(bytes.NewReader(w.B)), h.rev, proto.Results{{Name: "col", Data: col}}); err != nil {
			return fmt.Errorf("decode of a %s block into %s column: %w", t2.Name, []string{"the used", "a fresh"}[i], err)
		}
		cw, err := reg.WrapAs(col, t2, h.e.Label)
		if err != nil {
			return fmt.Errorf("harness: %v", err)
		}
		rows[i], types[i] = rowsCanon(cw), col.Type()
	}
	if types[0] != types[1] || !refcol.Equal(anyList(rows[0]), anyList(rows[1])) {
		return fmt.Errorf("a %s block decoded into the used column gives %s (column type %s); into a fresh column %s (column type %s)", t2.Name, refcol.Show(anyList(rows[0])), types[0], refcol.Show(anyList(rows[1])), types[1])
	}
	if !refcol.Equal(anyList(rows[1]), anyList(h.dec[0])) {
		return fmt.Errorf("a %s block decoded into a fresh column gives %s, the block carries %s", t2.Name, refcol.Show(anyList(rows[1])), refcol.Show(anyList(h.dec[0])))
	}
	if err := h.col.C.(proto.Inferable).Infer(proto.ColumnType(h.col.T.Name)); err != nil {
		return err
	}
	h.col.C.Reset()
	h.model = nil
	return nil
}

func ops16(h *hist16) []op16 {
	ops := []op16{
		{"append0", func(h *hist16) error { h.appendIdx(0); return nil }},
		{"append1", func(h *hist16) error { h.appendIdx(1); return nil }},
		{"append2", func(h *hist16) error { h.appendIdx(2); return nil }},
		{"reset", func(h *hist16) error { h.col.C.Reset(); h.model = nil; return nil }},
		{"encode-block", func(h *hist16) error {
			_, err := encodeBlock1(h.col.C, "col", h.rev, nil)
			return err
		}},
		{"write-block", func(h *hist16) error {
			sink := &sink14{failAt: -1}
			w := proto.NewWriter(sink, new(proto.Buffer))
			blk := proto.Block{Columns: 1, Rows: h.col.C.Rows()}
			if err := blk.WriteBlock(w, h.rev, []proto.InputColumn{{Name: "col", Data: h.col.C}}); err != nil {
				return err
			}
			if _, err := w.Flush(); err != nil {
				return err
			}
			// whatever state the column is in, the vectored path writes what the buffer path writes
			eb := proto.Buffer{}
			blk2 := proto.Block{Columns: 1, Rows: h.col.C.Rows()}
			if err := blk2.EncodeBlock(&eb, h.rev, []proto.InputColumn{{Name: "col", Data: h.col.C}}); err != nil {
				return err
			}
			if !bytes.Equal(sink.got, eb.Buf) {
				return fmt.Errorf("WriteBlock+Flush gives %d bytes, EncodeBlock %d (first difference at %d)", len(sink.got), len(eb.Buf), firstDiff(sink.got, eb.Buf))
			}
			return nil
		}},
		{"decode0", func(h *hist16) error { return h.decode(nil, false) }},
		{"decode2", func(h *hist16) error { return h.decode(h.dec[0], false) }},
		{"decode3", func(h *hist16) error { return h.decode(h.dec[1], false) }},
		{"failed-decode+reset", func(h *hist16) error { return h.decode(h.dec[0], true) }},
	}
	if strings.Contains(h.e.Label, "LowCardinality") {
		ops = append(ops,
			op16{"decode2-keys16", func(h *hist16) error { return h.decodeW(h.dec[0], false, 1) }},
			op16{"decode3-keys64", func(h *hist16) error { return h.decodeW(h.dec[1], false, 3) }})
	}
	if p, ok := h.col.C.(proto.Preparable); ok {
		_ = p
		ops = append(ops, op16{"prepare", func(h *hist16) error { return h.col.C.(proto.Preparable).Prepare() }})
	}
	if _, ok := h.col.C.(proto.Inferable); ok {
		ops = append(ops, op16{"infer-own-type", func(h *hist16) error { return h.col.C.(proto.Inferable).Infer(h.col.C.Type()) }})
	}
	if _, inferable := h.col.C.(proto.Inferable); inferable && strings.Contains(h.e.Label, "DateTime64(3)") && !strings.Contains(h.e.Label, "LowCardinality") {
		// (only targets that can adopt parameters at all: Nullable / LowCardinality wrappers are not
		// Inferable, and nothing in the properties asks them to adopt or refuse another precision)
		// a block of a parameter-only sibling type (another precision) into the used column: it
		// must end up exactly as a fresh column does after the same block (values read as the
		// block's type, reported type); then back to the own type, empty
		ops = append(ops, op16{"decode2-other-precision", func(h *hist16) error { return h.decodeSibling("DateTime64(3)", "DateTime64(6)") }})
	}
	if h.e.Label == "Enum8('a'=1,'b'=2,'c'=-3)" {
		// the name-based enum column adopts another definition of the same names (the column
		// is reused against a table whose enum numbers differ): the logical contents are the
		// names, the wire numbers follow the definition in force
		for _, def := range []string{"Enum8('a' = 10, 'b' = 20, 'c' = 30)", "Enum8('a' = 1, 'b' = 2, 'c' = -3)"} {
			def := def
			ops = append(ops, op16{"infer:" + def, func(h *hist16) error { return h.reinfer(def) }})
		}
	}
	return ops
}

// reinfer makes the column adopt another definition and re-expresses the model (and the
// decode payloads) in the numbers of that definition; alphabets of the two definitions
// list the same names in the same order.
func (h *hist16) reinfer(def string) error {
	oldCanon := make([]any, len(h.alpha))
	for i, v := range h.alpha {
		oldCanon[i] = h.col.Canon(v)
	}
	if err := h.col.C.(proto.Inferable).Infer(proto.ColumnType(def)); err != nil {
		return err
	}
	nc, err := reg.Wrap(h.col.C, h.e.Label)
	if err != nil {
		return err
	}
	h.col = nc
	h.alpha = nc.Alphabet()
	if len(h.alpha) != len(oldCanon) {
		return fmt.Errorf("harness: alphabets of the two enum definitions differ in size")
	}
	remap := func(v any) any {
		for i, o := range oldCanon {
			if refcol.Equal([]any{o}, []any{v}) {
				return nc.Canon(h.alpha[i])
			}
		}
		return v
	}
	for i := range h.model {
		h.model[i] = remap(h.model[i])
	}
	for _, d := range h.dec {
		for i := range d {
			d[i] = remap(d[i])
		}
	}
	return nil
}

func newHist16(e reg.Entry, rev int) (*hist16, error) {
	col, err := reg.Wrap(e.New(), e.Label)
	if err != nil {
		return nil, err
	}
	h := &hist16{e: e, col: col, rev: rev}
	h.alpha = col.Alphabet()
	c := func(i int) any { return col.Canon(h.alpha[i%len(h.alpha)]) }
	h.dec = [][]any{{c(1), c(0)}, {c(2), c(2), c(3)}}
	return h, nil
}

// c16Big: histories with a value longer than the 1 MiB step in which decoders allocate
// strings whose length came from the wire, on columns that already hold (or held) smaller
// data: all histories of <= n operations over {append a small value, Reset, decode a small
// block, decode a block whose LAST row is big, decode a block whose only row is big, encode}.
func c16Big(c *vk.Ctx) {
	rev := 54460
	big := make([]byte, 1<<20+11)
	for i := range big {
		big[i] = byte('A' + i%23)
	}
	small := []byte("row-data")
	type bcase struct {
		label            string
		smallV, bigV, sV any
	}
	cases := []bcase{
		{"String", small, big, []byte("s")},
		{"Array(String)", []any{small, []byte("x")}, []any{[]byte("y"), big}, []any{}},
		{"LowCardinality(String)", small, big, []byte("s")},
		{"Nullable(String)", small, big, nil},
	}
	n := 3
	if !c.Quick() {
		n = 4
	}
	var cnt int64
	for _, bc := range cases {
		e, ok := regtab.ByLabel(bc.label)
		if !ok {
			panic("C16: no registry entry " + bc.label)
		}
		opNames := []string{"append-small", "reset", "decode-small", "decode-small+big", "decode-big", "encode"}
		var rec func(path []int)
		rec = func(path []int) {
			if len(path) > 0 {
				cnt++
				id := fmt.Sprintf("big/%s/%v", bc.label, path)
				if (c.Only == "" && c.Mine(cnt)) || c.Only == id {
					c.Current(id)
					names := []string{}
					msg, fn := vk.Recover(func() {
						h, err := newHist16(e, rev)
						if err != nil {
							return
						}
						for _, oi := range path {
							names = append(names, opNames[oi])
							var oerr error
							switch oi {
							case 0:
								h.appendIdx(1)
							case 1:
								h.col.C.Reset()
								h.model = nil
							case 2:
								oerr = h.decode([]any{bc.sV, bc.smallV}, false)
							case 3:
								oerr = h.decode([]any{bc.smallV, bc.sV, bc.bigV}, false)
							case 4:
								oerr = h.decode([]any{bc.bigV}, false)
							case 5:
								_, oerr = encodeBlock1(h.col.C, "col", rev, nil)
							}
							if oerr != nil {
								c.Violation("C16/big/op-failed/"+opNames[oi]+"/"+bc.label, id, fmt.Sprintf("history %v: %v", names, oerr), nil)
								return
							}
						}
						if h.col.C.Rows() != len(h.model) {
							c.Violation("C16/big/rows/"+bc.label, id, fmt.Sprintf("history %v: Rows()=%d, model has %d", names, h.col.C.Rows(), len(h.model)), nil)
							return
						}
						if got := rowsCanon(h.col); !refcol.Equal(anyList(got), anyList(h.model)) {
							c.Violation("C16/big/row-values/"+bc.label, id, fmt.Sprintf("history %v: the column does not hold what the last decode / appends put there (a value of 1 MiB + 11 bytes is involved)", names), nil)
							return
						}
						b1, err := encodeBlock1(h.col.C, "col", rev, nil)
						if err != nil {
							c.Violation("C16/big/encode-error/"+bc.label, id, err.Error(), nil)
							return
						}
						r := refwire.NewR(b1)
						_, rows, cols := refcol.DecodeBlockBody(r, rev)
						if r.Err != nil || r.Left() != 0 || rows != len(h.model) || len(cols) != 1 || !refcol.Equal(anyList(cols[0].Vals), anyList(h.model)) {
							c.Violation("C16/big/encoding-does-not-reflect-contents/"+bc.label, id, fmt.Sprintf("history %v: the encoded block does not hold the logical contents (ref err %v)", names, r.Err), nil)
						}
					})
					if msg != "" {
						c.Violation("C16/big/panic/"+fn+"/"+bc.label, id, fmt.Sprintf("history %v: %s", names, msg), nil)
					}
					c.Eval("histories with a value above 1 MiB", 1)
					c.AddStates(0, int64(len(path)), 1)
				}
			}
			if len(path) == n {
				return
			}
			for oi := range opNames {
				rec(append(append([]int{}, path...), oi))
			}
		}
		rec(nil)
	}
}

// C16 — reused columns carry nothing over: reset+decode and re-encode are exact.
func C16(c *vk.Ctx) {
	defer c16Big(c)
	c.Rule("explicit-state breadth-first search over operation histories on the real column object, for each of 21 compositions (thorough: every registry composition of depth <= 1): alphabet {Append of 3 different values, Reset, EncodeBlock (Prepare + state + data), WriteBlock+Flush, DecodeBlock of 0 / 2 / 3 rows holding other values (other dictionary; for LowCardinality also with keys written wider than necessary, which is valid on the wire), DecodeBlock of a parameter-only sibling type (DateTime64 of another precision; the used column must end up as a fresh one does) and back, truncated DecodeBlock followed by Reset, Prepare where the column has it, Infer of its own type where inferable, and for the name-based enum column Infer of another definition of the same names (the model's numbers follow the definition in force)}; histories to depth 5 (thorough 6), a history is expanded only when the full-object fingerprint (every field, exported or not) together with the model state is new; successors are built by replaying the path on a fresh object. Oracle after every history: Rows()/Row(i) equal the list model, a fresh EncodeBlock decoded by the reference model equals the list model, and encoding twice gives the same bytes. Plus, for String / Array(String) / LowCardinality(String) / Nullable(String): all histories of <= 3 (thorough 4) operations over {append small, Reset, decode small block, decode a block whose last row has 1 MiB + 11 bytes, decode a block whose only row has, encode} with the same oracle. states = distinct (object fingerprint, model) pairs; transitions = operations executed.")
	depth := 5
	if !c.Quick() {
		depth = 6
	}
	var entries []reg.Entry
	for _, e := range regEntries(c) {
		if c.Quick() {
			for _, l := range c16Quick {
				if e.Label == l {
					entries = append(entries, e)
				}
			}
		} else if e.Depth <= 1 {
			entries = append(entries, e)
		}
	}
	rev := 54460
	var states, transitions, traces int64
	for ei, e := range entries {
		if c.Only == "" && !c.Mine(int64(ei)) {
			continue
		}
		probe, err := newHist16(e, rev)
		if err != nil {
			continue
		}
		nops := len(ops16(probe))
		tracesBefore := traces
		seen := map[uint64]bool{}
		frontier := [][]int{{}}
		for d := 0; d <= depth && len(frontier) > 0; d++ {
			var next [][]int
			for _, path := range frontier {
				id := fmt.Sprintf("%s/%v", e.Label, path)
				if c.Only != "" && !strings.HasPrefix(c.Only, e.Label+"/") {
					continue
				}
				c.Current(id)
				var h *hist16
				var fp uint64
				names := []string{}
				msg, fn := vk.Recover(func() {
					h, _ = newHist16(e, rev)
					ops := ops16(h)
					for _, oi := range path {
						names = append(names, ops[oi].name)
						transitions++
						if err := ops[oi].run(h); err != nil {
							c.Violation("C16/op-failed/"+ops[oi].name+"/"+e.Label, id, fmt.Sprintf("history %v: %v", names, err), nil)
							h = nil
							return
						}
					}
					fp = vk.Hash(deepHash(reflect.ValueOf(h.col.C), map[uintptr]bool{}), refcol.Show(anyList(h.model)))
					// ---- oracle ----
					if h.col.C.Rows() != len(h.model) {
						c.Violation("C16/rows/"+e.Label, id, fmt.Sprintf("history %v: Rows()=%d, model has %d", names, h.col.C.Rows(), len(h.model)), nil)
						return
					}
					if got := rowsCanon(h.col); !refcol.Equal(anyList(got), anyList(h.model)) {
						c.Violation("C16/row-values/"+e.Label, id, fmt.Sprintf("history %v: rows %s, model %s", names, refcol.Show(anyList(got)), refcol.Show(anyList(h.model))), nil)
						return
					}
					b1, err := encodeBlock1(h.col.C, "col", rev, nil)
					if err != nil {
						c.Violation("C16/encode-error/"+e.Label, id, fmt.Sprintf("history %v: %v", names, err), nil)
						return
					}
					if !noRef(e.Label) {
						r := refwire.NewR(b1)
						_, rows, cols := refcol.DecodeBlockBody(r, rev)
						if r.Err != nil || r.Left() != 0 || rows != len(h.model) || len(cols) != 1 || !refcol.Equal(anyList(cols[0].Vals), anyList(h.model)) {
							got := "?"
							if len(cols) == 1 {
								got = refcol.Show(anyList(cols[0].Vals))
							}
							c.Violation("C16/encoding-does-not-reflect-contents/"+e.Label, id, fmt.Sprintf("history %v: wire holds %s (err %v), logical contents %s", names, got, r.Err, refcol.Show(anyList(h.model))), nil)
							return
						}
					} else {
						fresh, _ := reg.Wrap(e.New(), e.Label)
						var blk proto.Block
						if err := blk.DecodeBlock(proto.NewReader(bytes.NewReader(b1)), rev, proto.Results{{Name: "col", Data: fresh.C}}); err != nil || !refcol.Equal(anyList(rowsCanon(fresh)), anyList(h.model)) {
							c.Violation("C16/encoding-does-not-reflect-contents/"+e.Label, id, fmt.Sprintf("history %v: own decode of the encoding differs from the logical contents (err %v)", names, err), nil)
							return
						}
					}
					b2, err := encodeBlock1(h.col.C, "col", rev, nil)
					if err != nil || !bytes.Equal(b1, b2) {
						c.Violation("C16/second-encode-differs/"+e.Label, id, fmt.Sprintf("history %v: encoding again without reset gives %s, first %s", names, vk.Hex(b2), vk.Hex(b1)), nil)
					}
				})
				traces++
				if msg != "" {
					c.Violation("C16/panic/"+fn+"/"+e.Label, id, fmt.Sprintf("history %v: %s", names, msg), nil)
					continue
				}
				if h == nil || seen[fp] {
					continue
				}
				seen[fp] = true
				if d < depth {
					for oi := 0; oi < nops; oi++ {
						next = append(next, append(append([]int{}, path...), oi))
					}
				}
			}
			frontier = next
		}
		states += int64(len(seen))
		c.Eval(e.Label, traces-tracesBefore)
	}
	c.AddStates(states, transitions, traces)
	c.DistinctN(states)
	c.Sample(map[string]any{"column": "LowCardinality(String)", "history": []string{"append0", "append1", "encode-block", "append2", "encode-block"}, "model": "[a0 a1 a2]", "oracle": "fresh EncodeBlock decodes (reference model) to [a0 a1 a2]"})
}
