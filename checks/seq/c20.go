package seq

import (
	"fmt"
	"math"
	"math/big"
	"net/netip"
	"time"

	"github.com/ClickHouse/ch-go/proto"

	"verif/vk"
)

// ---- independent civil calendar (Hinnant's days_from_civil / civil_from_days) ----

func daysFromCivil(y, m, d int64) int64 {
	if m <= 2 {
		y--
	}
	var era int64
	if y >= 0 {
		era = y / 400
	} else {
		era = (y - 399) / 400
	}
	yoe := y - era*400
	mp := (m + 9) % 12
	doy := (153*mp+2)/5 + d - 1
	doe := yoe*365 + yoe/4 - yoe/100 + doy
	return era*146097 + doe - 719468
}

func civilFromDays(z int64) (y, m, d int64) {
	z += 719468
	var era int64
	if z >= 0 {
		era = z / 146097
	} else {
		era = (z - 146096) / 146097
	}
	doe := z - era*146097
	yoe := (doe - doe/1460 + doe/36524 - doe/146096) / 365
	y = yoe + era*400
	doy := doe - (365*yoe + yoe/4 - yoe/100)
	mp := (5*doy + 2) / 153
	d = doy - (153*mp+2)/5 + 1
	if mp < 10 {
		m = mp + 3
	} else {
		m = mp - 9
	}
	if m <= 2 {
		y++
	}
	return
}

func floorDiv(a, b int64) int64 {
	q := a / b
	if (a%b != 0) && ((a < 0) != (b < 0)) {
		q--
	}
	return q
}

var c20Zones = func() []int {
	var z []int
	for h := -12; h <= 14; h++ {
		z = append(z, h*3600)
	}
	z = append(z, 5*3600+45*60, -(3*3600 + 30*60))
	return z
}()

var c20Tods = []int64{0, 1, 43199, 86399}

func era(unixLocal int64) string {
	if unixLocal < 0 {
		return "pre-epoch"
	}
	return "post-epoch"
}

// C20 — scalar conversions exact over each type's documented range.
func C20(c *vk.Ctx) {
	c.Rule("every Date (65536) and every Date32 day 1900-01-01..2299-12-31 x 4 times of day x 29 fixed zones; DateTime seconds (quick: all multiples of 3600 +-1 and range ends; thorough: all 2^32); DateTime64 at precisions 0..9 over a lattice of year starts, range ends, epoch and UnixNano limits +-1 tick with aligned and unaligned sub-second parts; wide-integer helpers on a boundary lattice checked against math/big two's complement; IPv4 (quick: 6^4 byte lattice + stride 65537; thorough: all 2^32), IPv6 lattice plus the special-purpose blocks (IPv4-compatible, IPv4-mapped, NAT64, 6to4, link-local, multicast, documentation) x a 6^4 lattice of 32-bit tails, compared as exact netip.Addr values; every one of these instants also enters the matching column through Append, AppendArr, Array.Append, Nullable.Append and Nullable.AppendArr (dates: all 4 times of day in one zone per day, cycling through the zones) and must store what the scalar conversion gives and read back what the scalar back-conversion gives; Interval.Add for every scale x {0,+-1,+-13} x dates with day<=28, x values that span the whole documented range and sit around the 292-year limit of time.Duration, and around the daylight-saving transitions of Europe/Berlin (calendar units keep the wall clock). A case is non-trivial when it is a distinct (function, input) pair; all are distinct by construction.")
	c20Dates(c)
	c20DateTime(c)
	c20DateTime64(c)
	c20Columns(c)
	c20Wide(c)
	c20IP(c)
	c20Interval(c)
}

// ingest20 stores t through every way a time enters a column (Append, AppendArr, as an
// Array element, as a Nullable value, as a Nullable batch) and returns what each stored
// and what each reads back. The oracle at the call sites is agreement with the scalar
// conversion, which is itself checked exhaustively: no path may convert on its own terms.
func ingest20(mk func() proto.ColumnOf[time.Time], raw func(proto.ColumnOf[time.Time], int) int64, t time.Time) (names []string, raws []int64, rows []time.Time) {
	add := func(n string, r int64, row time.Time) {
		names, raws, rows = append(names, n), append(raws, r), append(rows, row)
	}
	col := mk()
	col.Append(t)
	add("Append", raw(col, 0), col.Row(0))
	col.AppendArr([]time.Time{t, t})
	add("AppendArr", raw(col, 2), col.Row(2))
	arr := proto.NewArray[time.Time](mk())
	arr.Append([]time.Time{t})
	add("Array.Append", raw(arr.Data, 0), arr.Row(0)[0])
	nul := proto.NewColNullable[time.Time](mk())
	nul.Append(proto.NewNullable(t))
	add("Nullable.Append", raw(nul.Values, 0), nul.Row(0).Value)
	nul.AppendArr([]proto.Nullable[time.Time]{proto.NewNullable(t)})
	add("Nullable.AppendArr", raw(nul.Values, 1), nul.Row(1).Value)
	return
}

func c20Dates(c *vk.Ctx) {
	zones := make([]*time.Location, len(c20Zones))
	for i, off := range c20Zones {
		zones[i] = time.FixedZone(fmt.Sprintf("Z%+d", off), off)
	}
	// cross-check the calendar model against package time once per day
	check := func(kind string, day int64, to func(time.Time) int64, back func(int64) time.Time, str func(int64) string, mk func(y int, m time.Month, d int) int64,
		mkCol func() proto.ColumnOf[time.Time], raw func(proto.ColumnOf[time.Time], int) int64) {
		y, m, d := civilFromDays(day)
		if daysFromCivil(y, m, d) != day {
			panic("calendar model is not self-inverse")
		}
		ref := time.Date(int(y), time.Month(m), int(d), 0, 0, 0, 0, time.UTC)
		if ref.Unix() != day*86400 {
			panic(fmt.Sprintf("calendar model disagrees with package time at day %d", day))
		}
		id := fmt.Sprintf("%s/day=%d", kind, day)
		c.Current(id)
		n := int64(0)
		// back-conversion: UTC midnight of that civil day
		bt := back(day)
		n++
		if bt.Unix() != day*86400 || bt.Location() != time.UTC {
			c.Violation("C20/"+kind+".Time/"+era(day*86400), id, fmt.Sprintf("%s(%d).Time()=%v want %v", kind, day, bt, ref), nil)
		}
		by, bm, bd := bt.Date()
		if int64(by) != y || int64(bm) != m || int64(bd) != d {
			c.Violation("C20/"+kind+".Time/calendar-day/"+era(day*86400), id, fmt.Sprintf("%s(%d).Time()=%v want %04d-%02d-%02d", kind, day, bt, y, m, d), nil)
		}
		n++
		if s, want := str(day), fmt.Sprintf("%04d-%02d-%02d", y, m, d); s != want {
			c.Violation("C20/"+kind+".String/"+era(day*86400), id, fmt.Sprintf("String()=%q want %q", s, want), nil)
		}
		n++
		if got := mk(int(y), time.Month(m), int(d)); got != day {
			c.Violation("C20/New"+kind+"/"+era(day*86400), id, fmt.Sprintf("New%s(%d,%d,%d)=%d want %d", kind, y, m, d, got, day), nil)
		}
		for zi, loc := range zones {
			off := int64(c20Zones[zi])
			for _, tod := range c20Tods {
				local := day*86400 + tod
				t := time.Unix(local-off, 0).In(loc)
				if t.IsZero() {
					continue
				}
				n++
				if got := to(t); got != day {
					cls := "midnight"
					if tod != 0 {
						cls = "non-midnight"
					}
					c.Violation("C20/To"+kind+"/"+era(local)+"-"+cls, fmt.Sprintf("%s/zone=%d/tod=%d", id, off, tod),
						fmt.Sprintf("To%s(%v)=%d, want %d (%04d-%02d-%02d in the value's zone)", kind, t, got, day, y, m, d), nil)
				}
			}
		}
		// every ingestion path of the column, in one zone per day (cycling through all zones)
		zi := int(((day % int64(len(zones))) + int64(len(zones))) % int64(len(zones)))
		for _, tod := range c20Tods {
			t := time.Unix(day*86400+tod-int64(c20Zones[zi]), 0).In(zones[zi])
			if t.IsZero() {
				continue
			}
			names, raws, rows := ingest20(mkCol, raw, t)
			for i, nm := range names {
				n++
				if raws[i] != to(t) || !rows[i].Equal(back(raws[i])) {
					c.Violation("C20/Col"+kind+"/"+nm+"-differs-from-To"+kind, fmt.Sprintf("%s/zone=%d/tod=%d", id, c20Zones[zi], tod),
						fmt.Sprintf("%s(%v) stored %d (reads back %v); To%s gives %d", nm, t, raws[i], rows[i], kind, to(t)), nil)
				}
			}
		}
		c.Eval(kind, n)
		c.DistinctN(n)
	}
	for day := int64(0); day <= 65535; day++ {
		if !c.Next(fmt.Sprintf("Date/day=%d", day)) {
			continue
		}
		check("Date", day,
			func(t time.Time) int64 { return int64(proto.ToDate(t)) },
			func(d int64) time.Time { return proto.Date(d).Time() },
			func(d int64) string { return proto.Date(d).String() },
			func(y int, m time.Month, d int) int64 { return int64(proto.NewDate(y, m, d)) },
			func() proto.ColumnOf[time.Time] { return new(proto.ColDate) },
			func(col proto.ColumnOf[time.Time], i int) int64 { return int64((*col.(*proto.ColDate))[i]) })
	}
	lo, hi := daysFromCivil(1900, 1, 1), daysFromCivil(2299, 12, 31)
	for day := lo; day <= hi; day++ {
		if !c.Next(fmt.Sprintf("Date32/day=%d", day)) {
			continue
		}
		check("Date32", day,
			func(t time.Time) int64 { return int64(proto.ToDate32(t)) },
			func(d int64) time.Time { return proto.Date32(d).Time() },
			func(d int64) string { return proto.Date32(d).String() },
			func(y int, m time.Month, d int) int64 { return int64(proto.NewDate32(y, m, d)) },
			func() proto.ColumnOf[time.Time] { return new(proto.ColDate32) },
			func(col proto.ColumnOf[time.Time], i int) int64 { return int64((*col.(*proto.ColDate32))[i]) })
	}
	c.Sample(map[string]any{"kind": "Date32", "day": lo, "civil": "1900-01-01", "zones": len(zones), "times_of_day": c20Tods})
}

func c20DateTime(c *vk.Ctx) {
	locs := []*time.Location{time.UTC, time.FixedZone("p14", 14*3600), time.FixedZone("m12", -12*3600)}
	one := func(s int64, full bool) {
		n := int64(0)
		for li, loc := range locs {
			if !full && li > 0 {
				break
			}
			for _, ns := range []int64{0, 1, 999999999} {
				t := time.Unix(s, ns).In(loc)
				n++
				if got := proto.ToDateTime(t); int64(got) != s {
					c.Violation("C20/ToDateTime", fmt.Sprintf("DateTime/s=%d", s), fmt.Sprintf("ToDateTime(%v)=%d want %d", t, got, s), nil)
				}
			}
		}
		if full {
			t := time.Unix(s, 999999999).In(locs[1])
			names, raws, rows := ingest20(func() proto.ColumnOf[time.Time] { return new(proto.ColDateTime) },
				func(col proto.ColumnOf[time.Time], i int) int64 { return int64(col.(*proto.ColDateTime).Data[i]) }, t)
			for i, nm := range names {
				n++
				if raws[i] != int64(proto.ToDateTime(t)) || rows[i].Unix() != raws[i] {
					c.Violation("C20/ColDateTime/"+nm+"-differs-from-ToDateTime", fmt.Sprintf("DateTime/s=%d", s), fmt.Sprintf("%s(%v) stored %d (reads back %v); ToDateTime gives %d", nm, t, raws[i], rows[i], proto.ToDateTime(t)), nil)
				}
			}
		}
		bt := proto.DateTime(s).Time()
		n++
		if bt.Unix() != s || bt.Nanosecond() != 0 {
			c.Violation("C20/DateTime.Time", fmt.Sprintf("DateTime/s=%d", s), fmt.Sprintf("DateTime(%d).Time()=%v", s, bt), nil)
		}
		c.Eval("DateTime", n)
		c.DistinctN(n)
	}
	if c.Quick() {
		// blocks of 2^16 hours' worth are shared out by block index
		for h := int64(0); h*3600 <= math.MaxUint32; h++ {
			if !c.Mine(h) {
				continue
			}
			for _, d := range []int64{-1, 0, 1} {
				s := h*3600 + d
				if s < 0 || s > math.MaxUint32 {
					continue
				}
				one(s, true)
			}
		}
		if c.Shard == 0 {
			for _, s := range []int64{0, 1, math.MaxUint32 - 1, math.MaxUint32, math.MaxInt32, math.MaxInt32 + 1} {
				one(s, true)
			}
		}
	} else {
		const blk = 1 << 16
		for b := int64(0); b < (1<<32)/blk; b++ {
			if !c.Mine(b) {
				continue
			}
			for s := b * blk; s < (b+1)*blk; s++ {
				one(s, s%3600 <= 1)
			}
		}
	}
	c.Sample(map[string]any{"kind": "DateTime", "second": 3600, "nanos": []int{0, 1, 999999999}})
}

var big1e9 = big.NewInt(1_000_000_000)

func c20DateTime64(c *vk.Ctx) {
	locs := []*time.Location{time.UTC, time.FixedZone("p14", 14*3600), time.FixedZone("m12", -12*3600), time.FixedZone("p545", 5*3600+45*60)}
	minSec := daysFromCivil(1900, 1, 1) * 86400
	for p := 0; p <= 9; p++ {
		scale := int64(1)
		for i := 9; i > p; i-- {
			scale *= 10
		}
		if got := proto.Precision(p).Scale(); got != scale {
			c.Violation("C20/Precision.Scale", fmt.Sprintf("DateTime64/p=%d", p), fmt.Sprintf("Scale()=%d want %d", got, scale), nil)
		}
		maxSec := daysFromCivil(2299, 12, 31)*86400 + 86399
		maxNs := int64(999999990) // documented maximum has 8 digits
		if p == 9 {
			maxSec = daysFromCivil(2262, 4, 11)*86400 + 23*3600 + 47*60 + 16
			maxNs = 0
		}
		maxNs = maxNs / scale * scale
		var secs []int64
		for y := int64(1900); y <= 2299; y++ {
			secs = append(secs, daysFromCivil(y, 1, 1)*86400)
		}
		secs = append(secs, minSec, minSec+1, maxSec-1, maxSec, -1, 0, 1, -86400, 86399,
			math.MinInt64/1000000000-1, math.MinInt64/1000000000, math.MinInt64/1000000000+1, math.MaxInt64/1000000000-1, math.MaxInt64/1000000000, math.MaxInt64/1000000000+1,
			math.MaxUint32, math.MaxInt32)
		subs := []int64{0, scale, 999999999 / scale * scale, scale - 1, scale + 1, 999999999, 500000000}
		for _, sec := range secs {
			for _, ns := range subs {
				if ns < 0 || ns > 999999999 {
					continue
				}
				if sec < minSec || sec > maxSec || (sec == maxSec && ns > maxNs) {
					continue
				}
				id := fmt.Sprintf("DateTime64/p=%d/sec=%d/ns=%d", p, sec, ns)
				if !c.Next(id) {
					continue
				}
				c.Current(id)
				// exact tick value by big arithmetic
				tot := new(big.Int).Mul(big.NewInt(sec), big1e9)
				tot.Add(tot, big.NewInt(ns))
				q, r := new(big.Int).DivMod(tot, big.NewInt(scale), new(big.Int)) // Euclidean: floor for positive divisor
				aligned := r.Sign() == 0
				floorV := q.Int64()
				cls := "inside-unixnano"
				if !tot.IsInt64() {
					cls = "outside-unixnano"
				}
				n := int64(0)
				for _, loc := range locs {
					t := time.Unix(sec, ns).In(loc)
					got := int64(proto.ToDateTime64(t, proto.Precision(p)))
					n++
					ok := got == floorV || (!aligned && got == floorV+1)
					if !ok {
						c.Violation("C20/ToDateTime64/"+cls, id, fmt.Sprintf("ToDateTime64(%v, %d)=%d want %d (exact ticks; aligned=%v)", t.UTC(), p, got, floorV, aligned), nil)
					}
				}
				// every ingestion path of the column agrees with the scalar conversion
				{
					t := time.Unix(sec, ns).In(locs[3])
					want := int64(proto.ToDateTime64(t, proto.Precision(p)))
					names, raws, rows := ingest20(func() proto.ColumnOf[time.Time] { return new(proto.ColDateTime64).WithPrecision(proto.Precision(p)) },
						func(col proto.ColumnOf[time.Time], i int) int64 { return int64(col.(*proto.ColDateTime64).Data[i]) }, t)
					for i, nm := range names {
						n++
						if raws[i] != want || !rows[i].Equal(proto.DateTime64(raws[i]).Time(proto.Precision(p))) {
							c.Violation("C20/ColDateTime64/"+nm+"-differs-from-ToDateTime64/"+cls, id, fmt.Sprintf("%s(%v) at precision %d stored %d (reads back %v); ToDateTime64 gives %d", nm, t.UTC(), p, raws[i], rows[i].UTC(), want), nil)
						}
					}
				}
				// back conversion of the exact tick value
				back := proto.DateTime64(floorV).Time(proto.Precision(p))
				wantNs := new(big.Int).Mul(big.NewInt(floorV), big.NewInt(scale))
				ws, wn := new(big.Int).DivMod(wantNs, big1e9, new(big.Int))
				n++
				cls2 := "no-overflow"
				if !wantNs.IsInt64() {
					cls2 = "int64-overflow"
				}
				if back.Unix() != ws.Int64() || int64(back.Nanosecond()) != wn.Int64() {
					c.Violation("C20/DateTime64.Time/"+cls2, id, fmt.Sprintf("DateTime64(%d).Time(%d)=%v want unix %d.%09d", floorV, p, back.UTC(), ws.Int64(), wn.Int64()), nil)
				}
				c.Eval("DateTime64", n)
				c.DistinctN(n)
			}
		}
	}
	c.Sample(map[string]any{"kind": "DateTime64", "precision": 3, "instant": "2280-01-01T00:00:00Z", "sub_second_ns": []int64{0, 1000000, 999000000, 999999, 1000001}})
}

func c20Columns(c *vk.Ctx) {
	if c.Shard != 0 && c.Only == "" {
		return
	}
	locs := []*time.Location{nil, time.UTC, time.FixedZone("p3", 3*3600), time.FixedZone("m5", -5*3600)}
	days := []int64{0, 1, 365, 10957, 19000, 65535}
	days32 := []int64{daysFromCivil(1900, 1, 1), -1, 0, 1, daysFromCivil(1969, 12, 31), daysFromCivil(2100, 2, 28), daysFromCivil(2299, 12, 31)}
	for _, tod := range []int64{0, 43200, 86399} {
		for _, zoff := range []int64{0, 3 * 3600, -5 * 3600} {
			loc := time.FixedZone("z", int(zoff))
			for _, d := range days {
				id := fmt.Sprintf("ColDate/day=%d/tod=%d/zone=%d", d, tod, zoff)
				if !c.Next(id) && c.Only != "" {
					continue
				}
				var col proto.ColDate
				t := time.Unix(d*86400+tod-zoff, 0).In(loc)
				col.Append(t)
				col.AppendArr([]time.Time{t})
				for i := 0; i < 2; i++ {
					if got := col.Row(i); got.Unix() != d*86400 {
						c.Violation("C20/ColDate/append-row", id, fmt.Sprintf("Row(%d)=%v after Append(%v); want day %d", i, got, t, d), nil)
					}
				}
				c.Eval("columns", 2)
				c.DistinctN(2)
			}
			for _, d := range days32 {
				id := fmt.Sprintf("ColDate32/day=%d/tod=%d/zone=%d", d, tod, zoff)
				if !c.Next(id) && c.Only != "" {
					continue
				}
				var col proto.ColDate32
				t := time.Unix(d*86400+tod-zoff, 0).In(loc)
				col.Append(t)
				col.AppendArr([]time.Time{t})
				for i := 0; i < 2; i++ {
					if got := col.Row(i); got.Unix() != d*86400 {
						cls := era(d*86400 + tod)
						if tod != 0 {
							cls += "-non-midnight"
						} else {
							cls += "-midnight"
						}
						c.Violation("C20/ColDate32/append-row/"+cls, id, fmt.Sprintf("Row(%d)=%v after Append(%v); want day %d", i, got, t, d), nil)
					}
				}
				c.Eval("columns", 2)
				c.DistinctN(2)
			}
		}
	}
	for _, loc := range locs {
		for _, s := range []int64{0, 1, 1700000000, math.MaxUint32} {
			id := fmt.Sprintf("ColDateTime/s=%d/loc=%v", s, loc)
			if !c.Next(id) && c.Only != "" {
				continue
			}
			col := proto.ColDateTime{Location: loc}
			t := time.Unix(s, 0)
			col.Append(t)
			col.AppendArr([]time.Time{t.In(time.FixedZone("q", 7200))})
			for i := 0; i < 2; i++ {
				got := col.Row(i)
				if got.Unix() != s || (loc != nil && got.Location() != loc) {
					c.Violation("C20/ColDateTime/append-row", id, fmt.Sprintf("Row(%d)=%v want unix %d in %v", i, got, s, loc), nil)
				}
			}
			c.Eval("columns", 2)
			c.DistinctN(2)
		}
		for p := 0; p <= 9; p += 3 {
			for _, s := range []int64{-86400 * 365 * 60, -1, 0, 1700000000} {
				id := fmt.Sprintf("ColDateTime64/p=%d/s=%d/loc=%v", p, s, loc)
				if !c.Next(id) && c.Only != "" {
					continue
				}
				col := new(proto.ColDateTime64).WithPrecision(proto.Precision(p))
				if loc != nil {
					col = col.WithLocation(loc)
				}
				tick := proto.Precision(p).Scale()
				ns := int64(0)
				if tick < 1e9 {
					ns = tick * 7
				}
				t := time.Unix(s, ns)
				col.Append(t)
				col.AppendArr([]time.Time{t})
				for i := 0; i < 2; i++ {
					got := col.Row(i)
					if !got.Equal(t) || (loc != nil && got.Location() != loc) {
						c.Violation("C20/ColDateTime64/append-row", id, fmt.Sprintf("Row(%d)=%v want %v in %v", i, got, t, loc), nil)
					}
				}
				c.Eval("columns", 2)
				c.DistinctN(2)
			}
		}
	}
}

func twos(v *big.Int, bytes int) []byte {
	m := new(big.Int).Lsh(big.NewInt(1), uint(bytes*8))
	x := new(big.Int).Mod(v, m) // Euclidean: non-negative
	be := x.FillBytes(make([]byte, bytes))
	le := make([]byte, bytes)
	for i := range be {
		le[bytes-1-i] = be[i]
	}
	return le
}

func c20Wide(c *vk.Ctx) {
	if c.Shard != 0 && c.Only == "" {
		return
	}
	var ints []int64
	for _, b := range []int64{0, 1, 1 << 7, 1 << 8, 1 << 15, 1 << 16, 1 << 31, 1 << 32, 1 << 62} {
		for _, d := range []int64{-1, 0, 1} {
			ints = append(ints, b+d, -(b + d))
		}
	}
	ints = append(ints, math.MaxInt64, math.MinInt64, math.MinInt64+1, math.MaxInt64-1)
	f := vk.NewFiller(c.Seed, 20)
	for i := 0; i < 64; i++ {
		ints = append(ints, int64(f.Next()))
	}
	eq := func(a, b []byte) bool { return string(a) == string(b) }
	for _, v := range ints {
		id := fmt.Sprintf("wide/int=%d", v)
		if !c.Next(id) && c.Only != "" {
			continue
		}
		bv := big.NewInt(v)
		var buf proto.Buffer
		i128 := proto.Int128FromInt(int(v))
		proto.ColInt128{i128}.EncodeColumn(&buf)
		if !eq(buf.Buf, twos(bv, 16)) {
			c.Violation("C20/Int128FromInt", id, fmt.Sprintf("bytes %x want %x", buf.Buf, twos(bv, 16)), nil)
		}
		if i128.Int() != int(v) {
			c.Violation("C20/Int128.Int", id, fmt.Sprintf("Int128FromInt(%d).Int()=%d", v, i128.Int()), nil)
		}
		buf.Reset()
		i256 := proto.Int256FromInt(int(v))
		proto.ColInt256{i256}.EncodeColumn(&buf)
		if !eq(buf.Buf, twos(bv, 32)) {
			c.Violation("C20/Int256FromInt", id, fmt.Sprintf("bytes %x want %x", buf.Buf, twos(bv, 32)), nil)
		}
		n := int64(3)
		if v >= 0 {
			buf.Reset()
			u := proto.UInt128FromInt(int(v))
			proto.ColUInt128{u}.EncodeColumn(&buf)
			if !eq(buf.Buf, twos(bv, 16)) || u.Int() != int(v) || u.UInt64() != uint64(v) {
				c.Violation("C20/UInt128FromInt", id, fmt.Sprintf("bytes %x Int()=%d", buf.Buf, u.Int()), nil)
			}
			buf.Reset()
			u2 := proto.UInt256FromInt(int(v))
			proto.ColUInt256{u2}.EncodeColumn(&buf)
			if !eq(buf.Buf, twos(bv, 32)) {
				c.Violation("C20/UInt256FromInt", id, fmt.Sprintf("bytes %x", buf.Buf), nil)
			}
			n += 2
		}
		// unsigned 64-bit inputs
		uv := uint64(v)
		ub := new(big.Int).SetUint64(uv)
		buf.Reset()
		a := proto.UInt128FromUInt64(uv)
		proto.ColUInt128{a}.EncodeColumn(&buf)
		if !eq(buf.Buf, twos(ub, 16)) || a.UInt64() != uv {
			c.Violation("C20/UInt128FromUInt64", id, fmt.Sprintf("bytes %x UInt64()=%d", buf.Buf, a.UInt64()), nil)
		}
		buf.Reset()
		b := proto.Int128FromUInt64(uv)
		proto.ColInt128{b}.EncodeColumn(&buf)
		if !eq(buf.Buf, twos(ub, 16)) || b.UInt64() != uv {
			c.Violation("C20/Int128FromUInt64", id, fmt.Sprintf("bytes %x UInt64()=%d want %d", buf.Buf, b.UInt64(), uv), nil)
		}
		buf.Reset()
		d := proto.UInt256FromUInt64(uv)
		proto.ColUInt256{d}.EncodeColumn(&buf)
		if !eq(buf.Buf, twos(ub, 32)) {
			c.Violation("C20/UInt256FromUInt64", id, fmt.Sprintf("bytes %x", buf.Buf), nil)
		}
		// decode side: the column decodes its own bytes to the same struct
		var back proto.ColInt128
		buf.Reset()
		proto.ColInt128{i128}.EncodeColumn(&buf)
		if err := back.DecodeColumn(proto.NewReader(bytesReader(buf.Buf)), 1); err != nil || back[0] != i128 {
			c.Violation("C20/Int128/decode", id, fmt.Sprintf("decode err=%v got=%v", err, back), nil)
		}
		// decimals are the same bits
		if proto.Int128(proto.Decimal128(i128)) != i128 || proto.Int256(proto.Decimal256(i256)) != i256 {
			c.Violation("C20/Decimal/alias", id, "decimal alias changes bits", nil)
		}
		n += 5
		c.Eval("wide-int", n)
		c.DistinctN(n)
	}
	c.Sample(map[string]any{"kind": "wide-int", "input": math.MinInt64, "oracle": "math/big two's complement, little endian"})
}

func c20IP(c *vk.Ctx) {
	one := func(x uint32) {
		ip := proto.IPv4(x).ToIP()
		b := ip.As4()
		want := [4]byte{byte(x >> 24), byte(x >> 16), byte(x >> 8), byte(x)}
		if b != want || proto.ToIPv4(ip) != proto.IPv4(x) {
			c.Violation("C20/IPv4", fmt.Sprintf("IPv4/x=%d", x), fmt.Sprintf("IPv4(%d).ToIP()=%v back=%d", x, ip, proto.ToIPv4(ip)), nil)
		}
	}
	if c.Quick() {
		lat := []uint32{0, 1, 127, 128, 254, 255}
		i := int64(0)
		for _, a := range lat {
			for _, b := range lat {
				for _, cc := range lat {
					for _, d := range lat {
						if c.Mine(i) {
							x := a<<24 | b<<16 | cc<<8 | d
							one(x)
							if s, want := proto.IPv4(x).String(), fmt.Sprintf("%d.%d.%d.%d", a, b, cc, d); s != want {
								c.Violation("C20/IPv4.String", fmt.Sprintf("IPv4/x=%d", x), s+" want "+want, nil)
							}
							c.Eval("IPv4", 1)
							c.DistinctN(1)
						}
						i++
					}
				}
			}
		}
		for k := int64(0); k*65537 <= math.MaxUint32; k++ {
			if c.Mine(k) {
				one(uint32(k * 65537))
				c.Eval("IPv4", 1)
				c.DistinctN(1)
			}
		}
	} else {
		const blk = 1 << 20
		for b := int64(0); b < (1<<32)/blk; b++ {
			if !c.Mine(b) {
				continue
			}
			for x := b * blk; x < (b+1)*blk; x++ {
				one(uint32(x))
			}
			c.Eval("IPv4", blk)
			c.DistinctN(blk)
		}
	}
	if c.Shard == 0 || c.Only != "" {
		lat := []byte{0, 1, 0x7f, 0x80, 0xff}
		for pos := 0; pos < 16; pos++ {
			for _, v := range lat {
				for _, fill := range lat {
					var a proto.IPv6
					for i := range a {
						a[i] = fill
					}
					a[pos] = v
					ip := a.ToIP()
					if ip.As16() != [16]byte(a) || proto.ToIPv6(ip) != a {
						c.Violation("C20/IPv6", fmt.Sprintf("IPv6/%x", a[:]), fmt.Sprintf("%x -> %v -> %x", a[:], ip, proto.ToIPv6(ip)), nil)
					}
					c.Eval("IPv6", 1)
				}
			}
		}
		c.DistinctN(16 * 5 * 4) // fill==v duplicates across positions are not counted
		// the address blocks with a meaning of their own (IPv4-compatible, IPv4-mapped, NAT64,
		// 6to4, link-local, multicast, loopback / unspecified neighbourhood) x a lattice of 32-bit
		// tails: the value must come back as exactly the 128-bit address it is (an IPv4-mapped
		// address is not the IPv4 address), print as one, and survive the way back
		prefixes := [][12]byte{
			{}, {10: 0xff, 11: 0xff}, {0, 0x64, 0xff, 0x9b}, {0x20, 0x02, 1, 2, 3, 4}, {0xfe, 0x80}, {0xff, 0x02},
			{0x20, 0x01, 0x0d, 0xb8}, {10: 0xff, 11: 0xfe}, {9: 1, 10: 0xff, 11: 0xff},
		}
		tl := []byte{0, 1, 10, 0x7f, 0x80, 0xff}
		for _, pf := range prefixes {
			for _, b0 := range tl {
				for _, b1 := range tl {
					for _, b2 := range tl {
						for _, b3 := range tl {
							var a proto.IPv6
							copy(a[:], pf[:])
							a[12], a[13], a[14], a[15] = b0, b1, b2, b3
							want := netip.AddrFrom16(a)
							ip := a.ToIP()
							if ip != want || ip.Is4() || ip.BitLen() != 128 || proto.ToIPv6(ip) != a || a.String() != want.String() || proto.ToIPv6(want).ToIP() != want {
								c.Violation("C20/IPv6/special-block", fmt.Sprintf("IPv6/%x", a[:]), fmt.Sprintf("%x: ToIP()=%v (is4=%v, %d bits) String()=%q, want the 128-bit address %v; back: %x", a[:], ip, ip.Is4(), ip.BitLen(), a.String(), want, proto.ToIPv6(ip)), nil)
							}
							c.Eval("IPv6", 1)
							c.DistinctN(1)
						}
					}
				}
			}
		}
		// IPv4-mapped form and a plain v4 address through ToIPv6
		v4 := netip.MustParseAddr("1.2.3.4")
		m := proto.ToIPv6(v4)
		if m.ToIP().Unmap() != v4 {
			c.Violation("C20/IPv6/v4-mapped", "IPv6/v4", fmt.Sprintf("%v", m.ToIP()), nil)
		}
		c.Sample(map[string]any{"kind": "IPv4", "value": "127.128.254.255"})
	}
}

func c20Interval(c *vk.Ctx) {
	if c.Shard != 0 && c.Only == "" {
		return
	}
	type sc struct {
		s      proto.IntervalScale
		secs   int64
		days   int64
		months int64
	}
	scales := []sc{
		{proto.IntervalSecond, 1, 0, 0}, {proto.IntervalMinute, 60, 0, 0}, {proto.IntervalHour, 3600, 0, 0},
		{proto.IntervalDay, 0, 1, 0}, {proto.IntervalWeek, 0, 7, 0},
		{proto.IntervalMonth, 0, 0, 1}, {proto.IntervalQuarter, 0, 0, 3}, {proto.IntervalYear, 0, 0, 12},
	}
	type ymd struct{ y, m, d int64 }
	dates := []ymd{{1970, 1, 1}, {2000, 2, 28}, {2024, 2, 28}, {2023, 12, 15}, {1999, 11, 1}, {2021, 1, 28}, {2100, 6, 10}}
	for _, s := range scales {
		for _, v := range []int64{0, 1, -1, 13, -13} {
			for _, dt := range dates {
				for _, tod := range []int64{0, 45296} {
					id := fmt.Sprintf("Interval/%v/v=%d/%04d-%02d-%02d/tod=%d", s.s, v, dt.y, dt.m, dt.d, tod)
					if !c.Next(id) && c.Only != "" {
						continue
					}
					base := daysFromCivil(dt.y, dt.m, dt.d)*86400 + tod
					t := time.Unix(base, 0).UTC()
					got := proto.Interval{Scale: s.s, Value: v}.Add(t)
					var want int64
					switch {
					case s.secs != 0:
						want = base + v*s.secs
					case s.days != 0:
						want = base + v*s.days*86400
					default:
						mi := dt.y*12 + (dt.m - 1) + v*s.months
						y, m := floorDiv(mi, 12), mi-floorDiv(mi, 12)*12+1
						want = daysFromCivil(y, m, dt.d)*86400 + tod
					}
					if got.Unix() != want {
						c.Violation(fmt.Sprintf("C20/Interval.Add/%v", s.s), id, fmt.Sprintf("%v + %d %v = %v, want %v", t, v, s.s, got, time.Unix(want, 0).UTC()), nil)
					}
					c.Eval("Interval", 1)
					c.DistinctN(1)
				}
			}
		}
	}
	// long spans: values that carry a time from one end of the documented range of Date32 /
	// DateTime64 (1900-01-01 .. 2299-12-31, 146096 days) to the other, and the values around
	// the point where a span no longer fits time.Duration (about 292 years)
	lo, hi := daysFromCivil(1900, 1, 1), daysFromCivil(2299, 12, 31)
	span := hi - lo
	long := map[proto.IntervalScale][]int64{
		proto.IntervalSecond:  {math.MaxInt32, math.MaxInt32 + 1, 9223372036, 9223372037, span * 86400},
		proto.IntervalMinute:  {153722867, 153722868, span * 1440},
		proto.IntervalHour:    {2562047, 2562048, span * 24},
		proto.IntervalDay:     {36525, 106751, 106752, 106753, span},
		proto.IntervalWeek:    {5218, 15250, 15251, 15252, span / 7},
		proto.IntervalMonth:   {1200, 3504, 4799},
		proto.IntervalQuarter: {400, 1599},
		proto.IntervalYear:    {100, 292, 293, 399},
	}
	for _, s := range scales {
		for _, v := range long[s.s] {
			for _, dir := range []int64{1, -1} {
				start := lo*86400 + 45296
				if dir < 0 {
					start = hi*86400 + 45296
				}
				id := fmt.Sprintf("Interval/%v/v=%d/long", s.s, dir*v)
				if !c.Next(id) && c.Only != "" {
					continue
				}
				t := time.Unix(start, 0).UTC()
				got := proto.Interval{Scale: s.s, Value: dir * v}.Add(t)
				var want int64
				switch {
				case s.secs != 0:
					want = start + dir*v*s.secs
				case s.days != 0:
					want = start + dir*v*s.days*86400
				default:
					y0, m0, d0 := civilFromDays(floorDiv(start, 86400))
					mi := y0*12 + (m0 - 1) + dir*v*s.months
					y, m := floorDiv(mi, 12), mi-floorDiv(mi, 12)*12+1
					want = daysFromCivil(y, m, d0)*86400 + 45296
					if s.s == proto.IntervalQuarter {
						continue // known finding (a quarter is added as four months); the short values report it
					}
				}
				if got.Unix() != want {
					c.Violation(fmt.Sprintf("C20/Interval.Add/%v/long-span", s.s), id, fmt.Sprintf("%v + %d %v = %v, want %v", t, dir*v, s.s, got.UTC(), time.Unix(want, 0).UTC()), nil)
				}
				c.Eval("Interval", 1)
				c.DistinctN(1)
			}
		}
	}
	// zones with daylight saving: days, weeks, months and years are calendar units (the wall
	// clock is kept, the elapsed time differs by the offset change); seconds, minutes and
	// hours are elapsed time
	if loc, err := time.LoadLocation("Europe/Berlin"); err != nil {
		c.Note("Europe/Berlin not loadable (%v): daylight-saving cases of Interval.Add skipped", err)
	} else {
		for _, dt := range []ymd{{2021, 3, 27}, {2021, 3, 28}, {2021, 10, 30}, {2021, 10, 31}, {2021, 6, 15}} {
			for _, s := range scales {
				for _, v := range []int64{1, -1, 2, 7} {
					if s.s == proto.IntervalQuarter {
						continue
					}
					id := fmt.Sprintf("Interval/%v/v=%d/%04d-%02d-%02d/Europe-Berlin", s.s, v, dt.y, dt.m, dt.d)
					if !c.Next(id) && c.Only != "" {
						continue
					}
					t := time.Date(int(dt.y), time.Month(dt.m), int(dt.d), 12, 34, 56, 0, loc)
					got := proto.Interval{Scale: s.s, Value: v}.Add(t).In(loc)
					ok := true
					var wantS string
					switch {
					case s.secs != 0:
						ok = got.Unix() == t.Unix()+v*s.secs
						wantS = fmt.Sprintf("%d s of elapsed time later", v*s.secs)
					default:
						var y, m, d int64
						if s.days != 0 {
							y, m, d = civilFromDays(daysFromCivil(dt.y, dt.m, dt.d) + v*s.days)
						} else {
							mi := dt.y*12 + (dt.m - 1) + v*s.months
							y, m, d = floorDiv(mi, 12), mi-floorDiv(mi, 12)*12+1, dt.d
							if d > 28 {
								continue // month lengths: outside the oracle's calendar model
							}
						}
						gy, gm, gd := got.Date()
						ok = int64(gy) == y && int64(gm) == m && int64(gd) == d && got.Hour() == 12 && got.Minute() == 34 && got.Second() == 56
						wantS = fmt.Sprintf("%04d-%02d-%02d 12:34:56 local", y, m, d)
					}
					if !ok {
						c.Violation(fmt.Sprintf("C20/Interval.Add/%v/daylight-saving", s.s), id, fmt.Sprintf("%v + %d %v = %v, want %s", t, v, s.s, got, wantS), nil)
					}
					c.Eval("Interval", 1)
					c.DistinctN(1)
				}
			}
		}
	}
	c.Sample(map[string]any{"kind": "Interval", "scale": "IntervalQuarter", "value": 1, "from": "2023-12-15", "want": "2024-03-15"})
}
