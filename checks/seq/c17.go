package seq

import (
	"bytes"
	"fmt"
	"math"
	"reflect"
	"strings"

	"github.com/ClickHouse/ch-go/proto"
	"go.opentelemetry.io/otel/trace"

	"verif/refwire"
	"verif/vk"
)

var c17Strings = []string{"", "x", strings.Repeat("long-", 60), "\xff\xfe\x00utf8?", strings.Repeat("a", 127), strings.Repeat("b", 128)}
// c17Big: indices of strings longer than (and exactly as long as) the 1 MiB step in which the
// reader takes strings whose length came from the wire; used as single deviations only.
var c17Big = func() []int {
	var idx []int
	for _, n := range []int{1 << 20, 1<<20 + 1, 2<<20 + 5} {
		b := make([]byte, n)
		for i := range b {
			b[i] = byte('a' + i%23)
		}
		idx = append(idx, len(c17Strings))
		c17Strings = append(c17Strings, string(b))
	}
	return idx
}()

var c17Ints = []int{0, 1, 127, 128, 16383, 16384, math.MaxInt32, math.MaxInt64}

// msg17 is one protocol message in library form together with its reference form.
type msg17 struct {
	name   string
	fields int // number of variable fields
	// build returns the library-side encoder/decoder pair and the reference bytes for the
	// given field choice vector at revision rev. skip: the combination is not meaningful.
	build func(ch []int, rev int) (lib func() []byte, ref []byte, decode func(b []byte) (got any, want any, left int, err error), refuse string)
	alph  []int // alphabet size per field
}

func str(i int) string { return c17Strings[i%len(c17Strings)] }
func num(i int) int    { return c17Ints[i%len(c17Ints)] }

func c17Span(i int) (trace.SpanContext, refwire.Span) {
	if i == 0 {
		return trace.SpanContext{}, refwire.Span{}
	}
	cfg := trace.SpanContextConfig{TraceID: trace.TraceID{0xf0, 1, 2, 3, 4, 5, 6, 7, 8, 9, 10, 11, 12, 13, 14, 0x0f}, SpanID: trace.SpanID{0xa0, 2, 3, 4, 5, 6, 7, 0x0a}}
	rs := refwire.Span{Valid: true, TraceID: cfg.TraceID, SpanID: cfg.SpanID}
	if i == 2 || (i >= 3 && i%2 == 1) {
		ts, _ := trace.ParseTraceState("vendor=value,other=1")
		cfg.TraceState = ts
		rs.TraceState = "vendor=value,other=1"
	}
	if i == 2 {
		cfg.TraceFlags = trace.FlagsSampled
		rs.Flags = 1
	}
	if i >= 3 { // the flags field is one byte on the wire: all 256 values
		cfg.TraceFlags = trace.TraceFlags(byte(i - 3))
		rs.Flags = byte(i - 3)
	}
	return trace.NewSpanContext(cfg), rs
}

func c17Messages() []msg17 {
	return []msg17{
		{name: "ClientHello", fields: 7, alph: []int{6, 8, 8, 8, 6, 6, 6},
			build: func(c []int, rev int) (func() []byte, []byte, func([]byte) (any, any, int, error), string) {
				m := proto.ClientHello{Name: str(c[0]), Major: num(c[1]), Minor: num(c[2]), ProtocolVersion: num(c[3]), Database: str(c[4]), User: str(c[5]), Password: str(c[6])}
				var w refwire.W
				refwire.ClientHello{Name: m.Name, Major: m.Major, Minor: m.Minor, Revision: m.ProtocolVersion, Database: m.Database, User: m.User, Pass: m.Password}.Encode(&w)
				return func() []byte { var b proto.Buffer; m.Encode(&b); return b.Buf }, w.B,
					func(b []byte) (any, any, int, error) {
						r := proto.NewReader(bytes.NewReader(b[1:]))
						var d proto.ClientHello
						err := d.Decode(r)
						return d, m, leftover(r), err
					}, ""
			}},
		{name: "ServerHello", fields: 7, alph: []int{6, 8, 8, 6, 6, 6, 8},
			build: func(c []int, rev int) (func() []byte, []byte, func([]byte) (any, any, int, error), string) {
				srevs := []int{54460, 50000, 54058, 54371, 54372, 54400}
				m := proto.ServerHello{Name: str(c[0]), Major: num(c[1]), Minor: num(c[2]), Revision: srevs[c[3]%len(srevs)], Timezone: str(c[4]), DisplayName: str(c[5]), Patch: num(c[6])}
				var w refwire.W
				refwire.ServerHello{Name: m.Name, Major: m.Major, Minor: m.Minor, Revision: m.Revision, Timezone: m.Timezone, DisplayName: m.DisplayName, Patch: m.Patch}.Encode(&w, rev)
				eff := min(rev, m.Revision)
				want := m
				if eff < refwire.RevTimezone {
					want.Timezone = ""
				}
				if eff < refwire.RevDisplayName {
					want.DisplayName = ""
				}
				if eff < refwire.RevVersionPatch {
					want.Patch = 0
				}
				return func() []byte { var b proto.Buffer; m.EncodeAware(&b, rev); return b.Buf }, w.B,
					func(b []byte) (any, any, int, error) {
						r := proto.NewReader(bytes.NewReader(b[1:]))
						var d proto.ServerHello
						err := d.DecodeAware(r, rev)
						return d, want, leftover(r), err
					}, ""
			}},
		{name: "Query", fields: 14, alph: []int{6, 6, 6, 3, 2, 3, 3, 6, 6, 3 + 256, 6, 8, 3, 3},
			build: func(c []int, rev int) (func() []byte, []byte, func([]byte) (any, any, int, error), string) {
				sc, rs := c17Span(c[9])
				m := proto.Query{ID: str(c[0]), Body: str(c[1]), Secret: str(c[2]), Stage: []proto.Stage{proto.StageComplete, proto.StageFetchColumns, proto.StageWithMergeableState}[c[3]], Compression: proto.Compression(c[4]),
					Info: proto.ClientInfo{ProtocolVersion: num(c[11]), Major: 1, Minor: 2, Patch: 3, Interface: proto.InterfaceTCP, Query: proto.ClientQueryKind(c[12]),
						InitialUser: str(c[7]), InitialQueryID: str(c[0]), InitialAddress: "1.2.3.4:5", InitialTime: int64(num(c[11])), OSUser: str(c[8]), ClientHostname: "host", ClientName: "cli",
						Span: sc, QuotaKey: str(c[10]), DistributedDepth: num(c[13]), CollaborateWithInitiator: c[13] == 1, CountParticipatingReplicas: num(c[13]), NumberOfCurrentReplica: c[13]}}
				switch c[5] {
				case 1:
					m.Settings = []proto.Setting{{Key: "a", Value: "1", Important: true}}
				case 2:
					m.Settings = []proto.Setting{{Key: "a", Value: "", Custom: true}, {Key: "k2", Value: str(3), Obsolete: true, Important: true}}
				}
				switch c[6] {
				case 1:
					m.Parameters = []proto.Parameter{{Key: "p", Value: "'v'"}}
				case 2:
					m.Parameters = []proto.Parameter{{Key: "p", Value: ""}, {Key: "q", Value: str(2)}}
				}
				rq := refwire.Query{ID: m.ID, Secret: m.Secret, Stage: uint64(m.Stage), Compression: uint64(m.Compression), Body: m.Body,
					Info: refwire.ClientInfo{QueryKind: byte(m.Info.Query), InitialUser: m.Info.InitialUser, InitialQueryID: m.Info.InitialQueryID, InitialAddress: m.Info.InitialAddress,
						InitialTime: m.Info.InitialTime, Interface: 1, OSUser: m.Info.OSUser, Hostname: "host", ClientName: "cli", Major: 1, Minor: 2, Revision: m.Info.ProtocolVersion,
						QuotaKey: m.Info.QuotaKey, DistributedDepth: m.Info.DistributedDepth, Patch: 3, Span: rs, Collaborate: m.Info.CollaborateWithInitiator,
						CountReplicas: m.Info.CountParticipatingReplicas, ReplicaNumber: m.Info.NumberOfCurrentReplica}}
				for _, s := range m.Settings {
					rq.Settings = append(rq.Settings, refwire.Setting{Key: s.Key, Value: s.Value, Important: s.Important, Custom: s.Custom, Obsolete: s.Obsolete})
				}
				for _, p := range m.Parameters {
					rq.Params = append(rq.Params, refwire.Setting{Key: p.Key, Value: p.Value})
				}
				var w refwire.W
				rq.Encode(&w, rev)
				// what a decoder at this revision can know
				want := m
				if rev < refwire.RevClientWriteInfo {
					want.Info = proto.ClientInfo{}
				} else {
					wi := &want.Info
					if rev < refwire.RevQueryStartTime {
						wi.InitialTime = 0
					}
					if rev < refwire.RevQuotaKeyInClient {
						wi.QuotaKey = ""
					}
					if rev < refwire.RevDistributedDepth {
						wi.DistributedDepth = 0
					}
					if rev < refwire.RevVersionPatch {
						wi.Patch = 0
					}
					if rev < refwire.RevOpenTelemetry {
						wi.Span = trace.SpanContext{}
					}
					if rev < refwire.RevParallelReplicas {
						wi.CollaborateWithInitiator, wi.CountParticipatingReplicas, wi.NumberOfCurrentReplica = false, 0, 0
					}
				}
				if rev < refwire.RevSettingsAsStrings {
					want.Settings = nil
				}
				if rev < refwire.RevInterServerSecret {
					want.Secret = ""
				}
				if rev < refwire.RevParameters {
					want.Parameters = nil
				}
				return func() []byte { var b proto.Buffer; m.EncodeAware(&b, rev); return b.Buf }, w.B,
					func(b []byte) (any, any, int, error) {
						r := proto.NewReader(bytes.NewReader(b[1:]))
						var d proto.Query
						err := d.DecodeAware(r, rev)
						return d, want, leftover(r), err
					}, ""
			}},
		{name: "ClientData", fields: 1, alph: []int{6},
			build: func(c []int, rev int) (func() []byte, []byte, func([]byte) (any, any, int, error), string) {
				m := proto.ClientData{TableName: str(c[0])}
				var w refwire.W
				if rev >= refwire.RevTempTables {
					w.Str(m.TableName)
				}
				want := m
				if rev < refwire.RevTempTables {
					want.TableName = ""
				}
				return func() []byte { var b proto.Buffer; m.EncodeAware(&b, rev); return b.Buf }, w.B,
					func(b []byte) (any, any, int, error) {
						r := proto.NewReader(bytes.NewReader(b))
						var d proto.ClientData
						err := d.DecodeAware(r, rev)
						return d, want, leftover(r), err
					}, ""
			}},
		{name: "BlockHeader", fields: 4, alph: []int{2, 5, 4, 3},
			build: func(c []int, rev int) (func() []byte, []byte, func([]byte) (any, any, int, error), string) {
				buckets := []int{-1, 0, 1, math.MaxInt32, math.MinInt32}
				ncols := []int{0, 1, 2, 3}[c[2]]
				m := proto.Block{Info: proto.BlockInfo{Overflows: c[0] == 1, BucketNum: buckets[c[1]]}, Columns: ncols, Rows: 0}
				var input []proto.InputColumn
				rb := refwire.Block{Info: refwire.BlockInfo{Overflows: m.Info.Overflows, BucketNum: int32(m.Info.BucketNum)}}
				for i := 0; i < ncols; i++ {
					name := str(c[3] + i)
					input = append(input, proto.InputColumn{Name: name, Data: new(proto.ColUInt64)})
					rb.Columns = append(rb.Columns, refwire.Column{Name: name, Type: "UInt64"})
				}
				var w refwire.W
				rb.EncodeBody(&w, rev)
				want := m
				if rev < refwire.RevBlockInfo {
					want.Info = proto.BlockInfo{}
				}
				return func() []byte {
						var b proto.Buffer
						if err := m.EncodeBlock(&b, rev, input); err != nil {
							return []byte("encode error: " + err.Error())
						}
						return b.Buf
					}, w.B,
					func(b []byte) (any, any, int, error) {
						r := proto.NewReader(bytes.NewReader(b))
						var d proto.Block
						err := d.DecodeBlock(r, rev, nil)
						return d, want, leftover(r), err
					}, ""
			}},
		{name: "Progress", fields: 6, alph: []int{8, 8, 8, 8, 8, 8},
			build: func(c []int, rev int) (func() []byte, []byte, func([]byte) (any, any, int, error), string) {
				u := func(i int) uint64 {
					if i == 7 {
						return math.MaxUint64
					}
					return uint64(num(i))
				}
				m := proto.Progress{Rows: u(c[0]), Bytes: u(c[1]), TotalRows: u(c[2]), WroteRows: u(c[3]), WroteBytes: u(c[4]), ElapsedNs: u(c[5])}
				rp := refwire.Progress{Rows: m.Rows, Bytes: m.Bytes, TotalRows: m.TotalRows, WroteRows: m.WroteRows, WroteBytes: m.WroteBytes, ElapsedNs: m.ElapsedNs}
				var w refwire.W
				rp.EncodeBody(&w, rev)
				n := rp.Norm(rev)
				want := proto.Progress{Rows: n.Rows, Bytes: n.Bytes, TotalRows: n.TotalRows, WroteRows: n.WroteRows, WroteBytes: n.WroteBytes, ElapsedNs: n.ElapsedNs}
				return func() []byte { var b proto.Buffer; m.EncodeAware(&b, rev); return b.Buf }, w.B,
					func(b []byte) (any, any, int, error) {
						r := proto.NewReader(bytes.NewReader(b))
						var d proto.Progress
						err := d.DecodeAware(r, rev)
						return d, want, leftover(r), err
					}, ""
			}},
		{name: "Profile", fields: 6, alph: []int{8, 8, 8, 2, 8, 2},
			build: func(c []int, rev int) (func() []byte, []byte, func([]byte) (any, any, int, error), string) {
				m := proto.Profile{Rows: uint64(num(c[0])), Blocks: uint64(num(c[1])), Bytes: uint64(num(c[2])), AppliedLimit: c[3] == 1, RowsBeforeLimit: uint64(num(c[4])), CalculatedRowsBeforeLimit: c[5] == 1}
				var w refwire.W
				w.UVarint(refwire.ServerProfileCode)
				refwire.Profile{Rows: m.Rows, Blocks: m.Blocks, Bytes: m.Bytes, AppliedLimit: m.AppliedLimit, RowsBeforeLimit: m.RowsBeforeLimit, CalculatedRowsBeforeLimit: m.CalculatedRowsBeforeLimit}.EncodeBody(&w)
				return func() []byte { var b proto.Buffer; m.EncodeAware(&b, rev); return b.Buf }, w.B,
					func(b []byte) (any, any, int, error) {
						r := proto.NewReader(bytes.NewReader(b[1:]))
						var d proto.Profile
						err := d.DecodeAware(r, rev)
						return d, m, leftover(r), err
					}, ""
			}},
		{name: "Exception", fields: 5, alph: []int{6, 6, 6, 6, 2},
			build: func(c []int, rev int) (func() []byte, []byte, func([]byte) (any, any, int, error), string) {
				codes := []int32{0, 1, 60, 241, math.MaxInt32, -1}
				m := proto.Exception{Code: proto.Error(codes[c[0]]), Name: str(c[1]), Message: str(c[2]), Stack: str(c[3]), Nested: c[4] == 1}
				var w refwire.W
				w.I32(int32(m.Code))
				w.Str(m.Name)
				w.Str(m.Message)
				w.Str(m.Stack)
				w.Bool(m.Nested)
				return func() []byte { var b proto.Buffer; m.EncodeAware(&b, rev); return b.Buf }, w.B,
					func(b []byte) (any, any, int, error) {
						r := proto.NewReader(bytes.NewReader(b))
						var d proto.Exception
						err := d.DecodeAware(r, rev)
						return d, m, leftover(r), err
					}, ""
			}},
		{name: "TableColumns", fields: 2, alph: []int{6, 6},
			build: func(c []int, rev int) (func() []byte, []byte, func([]byte) (any, any, int, error), string) {
				m := proto.TableColumns{First: str(c[0]), Second: str(c[1])}
				var w refwire.W
				w.UVarint(refwire.ServerTableColumnsCode)
				refwire.TableColumns{First: m.First, Second: m.Second}.EncodeBody(&w)
				return func() []byte { var b proto.Buffer; m.EncodeAware(&b, rev); return b.Buf }, w.B,
					func(b []byte) (any, any, int, error) {
						r := proto.NewReader(bytes.NewReader(b[1:]))
						var d proto.TableColumns
						err := d.DecodeAware(r, rev)
						return d, m, leftover(r), err
					}, ""
			}},
	}
}

// leftover counts the bytes a reader has not consumed.
func leftover(r *proto.Reader) int {
	n := 0
	buf := make([]byte, 256)
	for {
		k, err := r.Read(buf)
		n += k
		if err != nil || k == 0 {
			return n
		}
	}
}

// threshold below which rev a field of the message disappears (for the violation key)
func revClass(rev int) string {
	switch {
	case rev < refwire.RevClientWriteInfo:
		return "below-54420"
	case rev < refwire.RevSettingsAsStrings:
		return "below-54429"
	}
	return "at-or-above-54429"
}

// C17 — protocol messages encode and decode symmetrically at every revision.
func C17(c *vk.Ctx) {
	c.Rule("messages {ClientHello, ServerHello, Query with ClientInfo / Settings / Parameters, ClientData, Block header + info, Progress, Profile, Exception, TableColumns} with <= 2 fields deviating from the base value (plus, one string field at a time at three revisions, strings of 1 MiB / 1 MiB + 1 / 2 MiB + 5 bytes) over per-field alphabets (strings empty / 1 / 127 / 128 / 300 bytes / non-UTF-8; integers 0, 1, 127, 128, 16383, 16384, 2^31-1, 2^63-1; every enum member; span contexts: none, valid, valid with trace state, and every value 0..255 of the one-byte trace flags) x revisions (quick: threshold-neighbour set 50000..54480; thorough: every revision 50000..54500). Oracle: library encoding = reference encoding byte for byte; library decoding of it = the message as far as the revision carries it, with zero unread bytes. distinct_nontrivial = distinct (message, field vector, revision) triples.")
	revs := refwire.RevSet(50000, 54480)
	if !c.Quick() {
		revs = revs[:0]
		for r := 50000; r <= 54500; r++ {
			revs = append(revs, r)
		}
	}
	for _, m := range c17Messages() {
		var vecs [][]int
		base := make([]int, m.fields)
		vecs = append(vecs, base)
		for i := 0; i < m.fields; i++ {
			for a := 1; a < m.alph[i]; a++ {
				v := append([]int{}, base...)
				v[i] = a
				vecs = append(vecs, v)
				for j := i + 1; j < m.fields; j++ {
					for b := 1; b < m.alph[j]; b++ {
						v2 := append([]int{}, v...)
						v2[j] = b
						vecs = append(vecs, v2)
					}
				}
			}
		}
		// strings beyond the 1 MiB step: one field at a time, at three revisions
		nSmall := len(vecs)
		for i := 0; i < m.fields; i++ {
			if m.alph[i] != 6 {
				continue // not a free-form string field
			}
			for _, bi := range c17Big {
				v := append([]int{}, base...)
				v[i] = bi
				// a six-valued field that is not a string indexes its own table: not applicable
				if msg, _ := vk.Recover(func() { m.build(v, revs[0]) }); msg != "" {
					continue
				}
				vecs = append(vecs, v)
			}
		}
		for vi, vec := range vecs {
			for ri, rev := range revs {
				if vi >= nSmall && ri != 0 && ri != len(revs)/2 && ri != len(revs)-1 {
					continue
				}
				id := fmt.Sprintf("%s/%v/rev=%d", m.name, vec, rev)
				if !c.Next(id) {
					continue
				}
				c.Current(id)
				lib, ref, dec, _ := m.build(vec, rev)
				var got []byte
				if msg, fn := vk.Recover(func() { got = lib() }); msg != "" {
					c.Violation("C17/"+m.name+"/encode-panic/"+fn, id, msg, nil)
					continue
				}
				c.Eval(m.name, 1)
				c.DistinctN(1)
				if !bytes.Equal(got, ref) {
					cls := "bytes"
					if m.name == "Query" && vec[3] != 0 && bytes.Equal(got, func() []byte {
						v2 := append([]int{}, vec...)
						v2[3] = 0
						l2, _, _, _ := m.build(v2, rev)
						return l2()
					}()) {
						cls = "stage-ignored"
					}
					c.Violation("C17/"+m.name+"/encoding-differs/"+cls, id, fmt.Sprintf("library %s\nreference %s", vk.Hex(got), vk.Hex(ref)), nil)
					continue
				}
				var dgot, dwant any
				var left int
				var derr error
				if msg, fn := vk.Recover(func() { dgot, dwant, left, derr = dec(ref) }); msg != "" {
					c.Violation("C17/"+m.name+"/decode-panic/"+fn, id, msg, nil)
					continue
				}
				if derr != nil {
					c.Violation("C17/"+m.name+"/decode-refuses-own-encoding/"+revClass(rev), id, fmt.Sprintf("decoding the encoding at revision %d fails: %v", rev, derr), nil)
					continue
				}
				if left != 0 {
					c.Violation("C17/"+m.name+"/unread-bytes", id, fmt.Sprintf("%d bytes left unread", left), nil)
					continue
				}
				if !reflect.DeepEqual(dgot, dwant) {
					c.Violation("C17/"+m.name+"/decoded-differs", id, fmt.Sprintf("decoded %+v\nwant    %+v", dgot, dwant), nil)
				}
			}
		}
	}
	c.Sample(map[string]any{"message": "Query", "fields_deviating": "Secret=300 bytes, 2 settings with flags", "revision": 54441, "oracle": "bytes == refwire encoding; DecodeAware(bytes) == message; 0 bytes unread"})
}
