package seq

import (
	"bytes"
	"fmt"
	"strings"

	"github.com/ClickHouse/ch-go/proto"

	"verif/checks/seq/reg"
	"verif/checks/seq/regtab"
	"verif/refcol"
	"verif/refwire"
	"verif/vk"
)

// sampleVal builds the i-th sample value of a reference type (small, valid for every type).
func sampleVal(t *refcol.Type, i int) any {
	switch t.Kind {
	case refcol.Fixed:
		b := make([]byte, t.Width)
		switch t.Base {
		case "Bool":
			b[0] = byte(i % 2)
		case "Enum8", "Enum16":
			// a declared member
			if len(t.Args) > 0 {
				_, v, _ := strings.Cut(t.Args[i%len(t.Args)], "=")
				var n int
				fmt.Sscan(strings.TrimSpace(v), &n)
				b[0] = byte(n)
				if t.Width == 2 {
					b[1] = byte(n >> 8)
				}
			}
		case "Nothing":
		default:
			b[0] = byte(i + 1)
		}
		return b
	case refcol.String:
		return []byte(strings.Repeat("v", i%3) + fmt.Sprint(i))
	case refcol.Nullable:
		if i%2 == 1 {
			return nil
		}
		return sampleVal(t.Elems[0], i)
	case refcol.Array:
		out := []any{}
		for k := 0; k < i%3; k++ {
			out = append(out, sampleVal(t.Elems[0], i+k))
		}
		return out
	case refcol.Map:
		out := []refcol.KV{}
		for k := 0; k < i%2+1; k++ {
			out = append(out, refcol.KV{K: sampleVal(t.Elems[0], i+k), V: sampleVal(t.Elems[1], i+k+1)})
		}
		return out
	case refcol.Tuple:
		tp := make(refcol.Tup, len(t.Elems))
		for k, e := range t.Elems {
			tp[k] = sampleVal(e, i+k)
		}
		return tp
	case refcol.LowCard:
		return sampleVal(t.Elems[0], i%2)
	}
	return nil
}

var c19Tokens = []string{"Array", "Nullable", "LowCardinality", "Map", "Tuple", "String", "Int8", "DateTime64", "DateTime", "Enum8", "Decimal", "FixedString", "IntervalDay", "(", ")", ",", "3", "'UTC'", "'a'=1", " ", "Foo", "Date", "99", "-1", ""}

// c19Types: the well-formed side of the enumeration.
func c19Types(quick bool) []string {
	seen := map[string]bool{}
	var out []string
	add := func(s string) {
		if !seen[s] {
			seen[s] = true
			out = append(out, s)
		}
	}
	var base []string
	for _, e := range regtab.Generated {
		if e.Depth == 0 {
			base = append(base, string(e.New().Type()))
		}
	}
	base = append(base, "DateTime('Europe/Berlin')", "DateTime('Nowhere/Land')", "DateTime64(3, 'Europe/Berlin')", "DateTime64(10)", "DateTime64('UTC')",
		"Decimal(1, 0)", "Decimal(9, 2)", "Decimal(10, 2)", "Decimal(18, 4)", "Decimal(19, 4)", "Decimal(38, 10)", "Decimal(39, 10)", "Decimal(76, 20)", "Decimal(77, 1)", "Decimal(9,2)",
		// the precision-only spelling (scale 0)
		"Decimal(1)", "Decimal(9)", "Decimal(10)", "Decimal(18)", "Decimal(19)", "Decimal(38)", "Decimal(39)", "Decimal(76)", "Decimal(77)", "Decimal(0)",
		"FixedString(1)", "FixedString(100)", "FixedString(0)", "FixedString(-1)", "FixedString(x)", "Enum8('a' = 1)", "Enum16('a' = -300, 'b' = 300)", "Enum8('q,x' = 1, ')' = 2)",
		"IntervalMinute", "IntervalHour", "IntervalDay", "IntervalWeek", "IntervalMonth", "IntervalQuarter", "Nested(a UInt8)", "SimpleAggregateFunction(sum, UInt64)", "Object('json')", "Variant(String, UInt8)", "Dynamic")
	for _, b := range base {
		add(b)
	}
	wrap1 := func(xs []string) []string {
		var o []string
		for _, x := range xs {
			o = append(o, "Array("+x+")", "Nullable("+x+")", "LowCardinality("+x+")", "Map(String, "+x+")", "Map("+x+", String)", "Tuple("+x+", String)", "Tuple(a "+x+")")
		}
		return o
	}
	l1 := wrap1(base)
	for _, x := range l1 {
		add(x)
	}
	small := []string{"UInt8", "String", "DateTime64(3)", "Enum8('a' = 1, 'b' = 2)", "FixedString(3)", "Nothing", "Decimal(9, 2)", "UUID"}
	l2 := wrap1(wrap1(small))
	for _, x := range l2 {
		add(x)
	}
	if !quick {
		for _, x := range wrap1(l2) {
			add(x)
		}
	}
	return out
}

func c19Infer(c *vk.Ctx, id, ts string, soundness bool) (accepted bool) {
	c.Current(id)
	msg, fn := vk.Recover(func() {
		col := new(proto.ColAuto)
		if err := col.Infer(proto.ColumnType(ts)); err != nil {
			return
		}
		accepted = true
		got := col.Type()
		if proto.ColumnType(ts).Conflicts(got) || got.Conflicts(proto.ColumnType(ts)) {
			c.Violation("C19/inferred-type-conflicts", id, fmt.Sprintf("Infer(%q) created a column of type %q, which conflicts with the request", ts, got), nil)
			return
		}
		col.Reset()
		if col.Rows() != 0 {
			c.Violation("C19/inferred-column-not-empty", id, fmt.Sprintf("%q: %d rows after Reset", ts, col.Rows()), nil)
		}
		if !soundness {
			return
		}
		t, err := refcol.Parse(ts)
		if err != nil {
			return // the reference model does not know the type: only totality is checked
		}
		if strings.Contains(ts, "LowCardinality(Nullable(") {
			return
		}
		vals := []any{sampleVal(t, 0), sampleVal(t, 1), sampleVal(t, 2)}
		var w refwire.W
		refcol.EncodeBlockBody(&w, 54460, refwire.BlockInfo{BucketNum: -1}, 3, []refcol.BlockCol{{Name: "x", Type: t, Vals: vals}})
		if strings.Contains(ts, "Nullable(") {
			// the same block with the masked slots of the NULLs holding zero bytes, as a server's
			// column has them after a plain NULL insert (also where 0 is not a member of an enum)
			var wz refwire.W
			refcol.NullSlotZero = true
			refcol.EncodeBlockBody(&wz, 54460, refwire.BlockInfo{BucketNum: -1}, 3, []refcol.BlockCol{{Name: "x", Type: t, Vals: vals}})
			refcol.NullSlotZero = false
			if !bytes.Equal(wz.B, w.B) {
				var rz proto.Results
				var bz proto.Block
				if err := bz.DecodeBlock(proto.NewReader(bytes.NewReader(wz.B)), 54460, rz.Auto()); err != nil {
					c.Violation("C19/inferred-column-cannot-decode/null-slot-zero/"+outerKind(ts), id, fmt.Sprintf("a block of type %q whose NULL rows carry zero bytes in the masked slot does not decode through the inferred column: %v", ts, err), nil)
					return
				}
			}
		}
		var res proto.Results
		var blk proto.Block
		if err := blk.DecodeBlock(proto.NewReader(bytes.NewReader(w.B)), 54460, res.Auto()); err != nil {
			c.Violation("C19/inferred-column-cannot-decode/"+outerKind(ts), id, fmt.Sprintf("a block of type %q written by the reference model does not decode through the inferred column: %v", ts, err), nil)
			return
		}
		if len(res) != 1 || res[0].Data.Rows() != 3 {
			c.Violation("C19/inferred-column-rows/"+outerKind(ts), id, fmt.Sprintf("%q: %d columns", ts, len(res)), nil)
			return
		}
		dc, ok := res[0].Data.(proto.Column)
		if !ok || !hasRow(dc) {
			return
		}
		// read back as values of the REQUESTED type (a column that reports the right type but
		// converts on other parameters must not agree with itself)
		wr, err := reg.WrapAs(dc, t, ts)
		if err != nil {
			return
		}
		var gotVals []any
		if m, _ := vk.Recover(func() { gotVals = rowsCanon(wr) }); m != "" {
			return // no canonical reading for this Go representation
		}
		if !refcol.Equal(anyList(gotVals), anyList(vals)) {
			c.Violation("C19/inferred-column-decodes-wrong-values/"+outerKind(ts), id, fmt.Sprintf("%q: decoded %s, the block holds %s", ts, refcol.Show(anyList(gotVals)), refcol.Show(anyList(vals))), nil)
		}
	})
	if msg != "" {
		if len(msg) > 200 {
			msg = msg[:200]
		}
		c.Violation("C19/infer-panics/"+fn, id, fmt.Sprintf("Infer(%q) panics: %s", ts, msg), nil)
	}
	return accepted
}

// C19 — type inference is total and sound; type compatibility is symmetric.
func C19(c *vk.Ctx) {
	c.Rule("type strings: (a) every type the registry's base columns report, legal and illegal parameterisations (time zones, DateTime64 precisions 0..10, Decimal precisions at every width boundary, FixedString sizes incl. 0 / negative / non-numeric, enum definitions with quoted commas and parentheses, interval kinds, types the library does not know), each under Array / Nullable / LowCardinality / Map / Tuple wrappers to depth 1, a smaller base set to depth 2 (thorough 3); (a2) all histories Infer(A), [refused Infer(X)], Infer(B) on one ColAuto over a 30-type set (unrelated types, parameter-only siblings, refused types): whatever is accepted for B must come with a column whose type does not conflict with B and whose parameters are those a fresh ColAuto derives from B; (b) ALL token strings of length <= n (quick 5, thorough 6) over a 25-token alphabet of type names, punctuation, parameters and junk; (c) nesting depth 10000; (d) every single edit (deletion, insertion or replacement by one of ()',= 0a- at every position, every truncation) of the set-(a) types with at most 3 parentheses; (e) ALL character strings of length <= m (quick 5, thorough 6) over the alphabet {' a = 1 , space - ( )} as the parameter list of Enum8 / Enum16 / DateTime / DateTime64 / Decimal / Decimal64 / FixedString / Map / Tuple / Nested, bare and under Nullable / Array. Oracle: Infer never panics; when it accepts, the column's type does not conflict with the request and a block of that type written by the reference model decodes to the written values (for Nullable types also with zero bytes in the masked slots of the NULL rows, as servers write them). Conflicts is checked reflexive and symmetric on all ordered pairs of set (a) and against the documented equivalences, generated from families of spellings with one wire layout (enum / bare enum / underlying integer; DecimalN / Decimal(P, S) / Decimal(P) at both ends of each precision range; timestamps with and without zone; Map / Tuple types with 0 / 1 / 2 / 4 spaces after each comma), bare and under Array / Nullable / LowCardinality, with the pairs across families of one group required to conflict. distinct_nontrivial = distinct type strings + ordered pairs.")
	quick := c.Quick()
	types := c19Types(quick)
	accepted := 0
	for i, ts := range types {
		if c.Only == "" && !c.Mine(int64(i)) {
			continue
		}
		id := "type/" + ts
		if c.Only != "" && c.Only != id {
			continue
		}
		if c19Infer(c, id, ts, true) {
			accepted++
		}
		c.Eval("well-formed types", 1)
		c.DistinctN(1)
	}
	// (a2) a ColAuto with a history: soundness must not depend on what the same ColAuto was
	// asked before — after inferring A, and after inferring A and being refused X, whatever
	// Infer(B) accepts must come with a column of a type that does not conflict with B
	{
		hist := []string{"String", "UInt8", "Nullable(String)", "Array(UInt8)", "DateTime64(3)", "Enum8('a' = 1, 'b' = 2)", "LowCardinality(String)", "Decimal(9, 2)",
			"FixedString(5)", "Map(String, UInt8)", "Tuple(String, UInt8)", "DateTime('Bad/Zone')", "DateTime64(3, 'No/Such_Zone')", "Decimal(77, 0)", "Array(Enum8('a' = 1))",
			"LowCardinality(Nullable(String))", "Foo", "Nullable(Foo)", "FixedString(x)", "Enum8(=1)",
			"DateTime64(6)", "Nullable(DateTime64(9))", "Nullable(DateTime64(3))", "Enum8('x' = 5)", "Int8", "DateTime", "DateTime('UTC')", "Array(Enum8('b' = 7))", "Decimal(9, 4)", "FixedString(8)"}
		fresh := map[string]bool{}
		for _, b := range hist {
			fresh[b] = new(proto.ColAuto).Infer(proto.ColumnType(b)) == nil
		}
		var hn int64
		for _, a := range hist {
			if !fresh[a] {
				continue
			}
			for _, x := range append([]string{""}, hist...) {
				if x != "" && fresh[x] {
					continue // x is a type that gets refused (or nothing)
				}
				for _, b := range hist {
					hn++
					id := fmt.Sprintf("history/%s|%s|%s", a, x, b)
					if (c.Only == "" && !c.Mine(hn)) || (c.Only != "" && c.Only != id) {
						continue
					}
					c.Current(id)
					msg, fn := vk.Recover(func() {
						col := new(proto.ColAuto)
						if err := col.Infer(proto.ColumnType(a)); err != nil {
							return
						}
						if x != "" {
							_ = col.Infer(proto.ColumnType(x))
						}
						err := col.Infer(proto.ColumnType(b))
						if err != nil {
							return // refusing is always allowed (a used ColAuto may also accept what a fresh one refuses, e.g. a bad time zone on a compatible column: sound, so not judged)
						}
						if inner, ok := col.Data.(proto.Column); ok {
							if proto.ColumnType(b).Conflicts(inner.Type()) {
								c.Violation("C19/column-kept-from-history", id, fmt.Sprintf("after Infer(%q), a refused Infer(%q) and an accepted Infer(%q) the ColAuto still holds a column of type %q", a, x, b, inner.Type()), nil)
								return
							}
							// the column must be one that decodes data of type B: the parameters it works with
							// (precision, enum definition, width), which its own Type() spells out, must be
							// those a fresh ColAuto derives from B
							if f := new(proto.ColAuto); f.Infer(proto.ColumnType(b)) == nil && f.Data != nil && f.Data.Type() != inner.Type() {
								c.Violation("C19/column-parameters-from-history", id, fmt.Sprintf("after Infer(%q), a refused Infer(%q) and an accepted Infer(%q) the ColAuto holds a column of type %q; a fresh one holds %q", a, x, b, inner.Type(), f.Data.Type()), nil)
							}
						}
					})
					if msg != "" {
						c.Violation("C19/infer-panics/"+fn, id, msg, nil)
					}
					c.Eval("ColAuto histories", 1)
					c.DistinctN(1)
				}
			}
		}
	}
	// (b) token strings
	n := 5
	if !quick {
		n = 6
	}
	var cnt int64
	var rec func(pre string, depth int)
	rec = func(pre string, depth int) {
		if c.Only == "" && c.Mine(cnt) || c.Only == "tok/"+pre {
			c19Infer(c, "tok/"+pre, pre, false)
			c.Eval("token strings", 1)
		}
		cnt++
		if depth == n {
			return
		}
		for _, tk := range c19Tokens {
			if tk == "" {
				continue
			}
			rec(pre+tk, depth+1)
		}
	}
	rec("", 0)
	c.DistinctN(cnt / int64(max(c.N, 1)))
	// (d) every single edit (byte deleted, byte replaced or inserted from a punctuation
	// alphabet, every truncation) of the well-formed types up to wrapper depth 1
	edits := []byte("()',= 0a-")
	for i, ts := range types {
		if strings.Count(ts, "(") > 3 || len(ts) > 80 {
			continue
		}
		if c.Only == "" && !c.Mine(int64(i)) {
			continue
		}
		seen := map[string]bool{ts: true}
		try := func(m string) {
			if seen[m] {
				return
			}
			seen[m] = true
			if c.Only != "" && c.Only != "edit/"+m {
				return
			}
			c19Infer(c, "edit/"+m, m, false)
			c.Eval("single edits", 1)
			c.DistinctN(1)
		}
		for k := 0; k <= len(ts); k++ {
			try(ts[:k])
			if k < len(ts) {
				try(ts[:k] + ts[k+1:])
			}
			for _, e := range edits {
				try(ts[:k] + string(e) + ts[k:])
				if k < len(ts) {
					try(ts[:k] + string(e) + ts[k+1:])
				}
			}
		}
	}
	// (e) parameter lists: ALL character strings of length <= m over a 9-character alphabet
	// inside the parentheses of every parameterised family, bare and under a wrapper
	m := 5
	if !quick {
		m = 6
	}
	chars := []byte("'a=1, -()")
	fams := []string{"Enum8", "Enum16", "DateTime", "DateTime64", "Decimal", "FixedString", "Map", "Tuple", "Decimal64", "Nested"}
	var pcnt int64
	var prec func(pre []byte)
	prec = func(pre []byte) {
		mine := c.Only == "" && c.Mine(pcnt)
		pcnt++
		for _, f := range fams {
			for _, wr := range []string{"%s", "Nullable(%s)", "Array(%s)"} {
				ts := fmt.Sprintf(wr, f+"("+string(pre)+")")
				if mine || c.Only == "param/"+ts {
					c19Infer(c, "param/"+ts, ts, false)
					c.Eval("parameter strings", 1)
				}
			}
		}
		if len(pre) == m {
			return
		}
		for _, ch := range chars {
			prec(append(pre, ch))
		}
	}
	prec(nil)
	c.DistinctN(pcnt * int64(len(fams)) * 3 / int64(max(c.N, 1)))
	// (c) very deep nesting
	if c.Shard == 0 || c.Only == "deep" {
		for _, w := range []string{"Array", "Nullable", "LowCardinality", "Tuple"} {
			deep := strings.Repeat(w+"(", 10000) + "UInt8" + strings.Repeat(")", 10000)
			c19Infer(c, "deep/"+w, deep, false)
			c.Eval("deep nesting", 1)
		}
	}
	// Conflicts: reflexive, symmetric
	if c.Only == "" {
		for i, a := range types {
			if !c.Mine(int64(i)) {
				continue
			}
			ta := proto.ColumnType(a)
			msg, fn := vk.Recover(func() {
				if ta.Conflicts(ta) {
					c.Violation("C19/conflicts-not-reflexive", "pair/"+a, fmt.Sprintf("%q conflicts with itself", a), nil)
				}
				for _, b := range types {
					tb := proto.ColumnType(b)
					if ta.Conflicts(tb) != tb.Conflicts(ta) {
						c.Violation("C19/conflicts-not-symmetric/"+outerKind(a)+"-"+outerKind(b), "pair/"+a+"|"+b, fmt.Sprintf("%q.Conflicts(%q)=%v but the converse is %v", a, b, ta.Conflicts(tb), tb.Conflicts(ta)), nil)
					}
				}
			})
			if msg != "" {
				c.Violation("C19/conflicts-panics/"+fn, "pair/"+a, msg, nil)
			}
			c.Eval("conflict pairs", int64(len(types)))
			c.DistinctN(int64(len(types)))
		}
	}
	// documented equivalences and base-type differences
	if c.Shard == 0 {
		type pr struct {
			a, b string
			want bool // conflict expected
		}
		pairs := []pr{
			{"Enum8('a' = 1)", "Int8", false}, {"Enum16('a' = 1)", "Int16", false}, {"Enum8('a' = 1)", "Enum8('b' = 2, 'c' = 3)", false},
			{"Decimal(9, 2)", "Decimal32", false}, {"Decimal(18, 2)", "Decimal64", false}, {"Decimal(38, 2)", "Decimal128", false}, {"Decimal(76, 2)", "Decimal256", false},
			{"Decimal(10, 2)", "Decimal64", false}, {"Decimal(19, 2)", "Decimal128", false}, {"Decimal(39, 2)", "Decimal256", false}, {"Nullable(Decimal256)", "Nullable(Decimal(76, 38))", false},
			{"Map(String,UInt8)", "Map(String, UInt8)", false}, {"Tuple(String,UInt8)", "Tuple(String, UInt8)", false},
			{"DateTime", "DateTime('UTC')", false}, {"DateTime64(3)", "DateTime64(3, 'UTC')", false}, {"DateTime('Europe/Berlin')", "DateTime('UTC')", false},
			{"Array(Enum8('a' = 1))", "Array(Int8)", false}, {"Nullable(DateTime)", "Nullable(DateTime('UTC'))", false}, {"LowCardinality(Enum8('a' = 1))", "LowCardinality(Int8)", false},
			{"Array(String)", "Array(UInt8)", true}, {"Nullable(String)", "Nullable(UInt8)", true}, {"LowCardinality(String)", "LowCardinality(FixedString(3))", true},
			{"Enum8('a' = 1)", "Int16", true}, {"Enum16('a' = 1)", "Int8", true}, {"FixedString(2)", "FixedString(3)", true}, {"Decimal(9, 2)", "Decimal64", true}, {"Decimal(10, 2)", "Decimal32", true},
		}
		// generated: families of spellings with one wire layout (every ordered pair inside a
		// family is compatible, bare and under the element-wise wrappers; pairs across the
		// families of one group conflict)
		groups := [][][]string{
			{{"Int8", "Enum8", "Enum8('a' = 1)", "Enum8('b' = 2, 'c' = 3)"}, {"Int16", "Enum16", "Enum16('a' = 1)", "Enum16('b' = -300, 'c' = 300)"}},
			{{"Decimal32", "Decimal(1, 0)", "Decimal(9, 2)", "Decimal(9,2)", "Decimal(1)", "Decimal(9)"}, {"Decimal64", "Decimal(10, 2)", "Decimal(18, 4)", "Decimal(10)", "Decimal(18)"},
				{"Decimal128", "Decimal(19, 4)", "Decimal(38, 10)", "Decimal(19)", "Decimal(38)"}, {"Decimal256", "Decimal(39, 10)", "Decimal(76, 20)", "Decimal(39)", "Decimal(76)"}},
			{{"DateTime", "DateTime('UTC')", "DateTime('Europe/Berlin')"}, {"DateTime64(3)", "DateTime64(3, 'UTC')", "DateTime64(9)"}},
		}
		// spacing after commas is insignificant, whatever its amount
		for _, tpl := range []string{"Map(String,%sUInt8)", "Tuple(String,%sUInt8,%sDate)", "Array(Map(String,%sArray(UInt8)))", "Tuple(a String,%sb Map(String,%sUInt8))"} {
			sp := []string{"", " ", "  ", "    "}
			var variants []string
			for _, a := range sp {
				for _, b := range sp {
					v := strings.Replace(strings.Replace(tpl, "%s", a, 1), "%s", b, 1)
					dup := false
					for _, x := range variants {
						dup = dup || x == v
					}
					if !dup {
						variants = append(variants, v)
					}
				}
			}
			for _, a := range variants {
				for _, b := range variants {
					if a != b {
						pairs = append(pairs, pr{a, b, false})
					}
				}
			}
		}
		for _, g := range groups {
			for fi, fam := range g {
				for _, wr := range []string{"%s", "Array(%s)", "Nullable(%s)", "LowCardinality(%s)", "Array(Nullable(%s))"} {
					for _, a := range fam {
						for _, b := range fam {
							if a != b {
								pairs = append(pairs, pr{fmt.Sprintf(wr, a), fmt.Sprintf(wr, b), false})
							}
						}
						for fj, other := range g {
							if fj > fi {
								for _, b := range other {
									pairs = append(pairs, pr{fmt.Sprintf(wr, a), fmt.Sprintf(wr, b), true})
								}
							}
						}
					}
				}
			}
		}
		for _, e := range regtab.Generated {
			if e.Depth != 0 {
				continue
			}
			for _, f := range regtab.Generated {
				if f.Depth != 0 {
					continue
				}
				a, b := string(e.New().Type()), string(f.New().Type())
				ba, bb := string(proto.ColumnType(a).Base()), string(proto.ColumnType(b).Base())
				if ba != bb && !(strings.HasPrefix(ba, "Enum") && strings.HasPrefix(bb, "Int")) && !(strings.HasPrefix(bb, "Enum") && strings.HasPrefix(ba, "Int")) && !strings.HasPrefix(ba, "Decimal") && !strings.HasPrefix(bb, "Decimal") {
					pairs = append(pairs, pr{a, b, true})
				}
			}
		}
		for _, p := range pairs {
			for _, q := range [][2]string{{p.a, p.b}, {p.b, p.a}} {
				got := proto.ColumnType(q[0]).Conflicts(proto.ColumnType(q[1]))
				if got != p.want {
					cls := "documented-equivalence-conflicts"
					if p.want {
						cls = "different-types-compatible"
					}
					c.Violation("C19/"+cls+"/"+outerKind(p.a)+"-"+outerKind(p.b), "equiv/"+q[0]+"|"+q[1], fmt.Sprintf("%q.Conflicts(%q) = %v, want %v", q[0], q[1], got, p.want), nil)
				}
				c.Eval("documented equivalences", 1)
			}
		}
	}
	c.Sample(map[string]any{"type": "Map(String, Array(Nullable(DateTime64(3, 'Europe/Berlin'))))", "checks": []string{"Infer does not panic", "inferred Type() does not conflict", "reference block decodes to the written values"}})
	_ = accepted
}
