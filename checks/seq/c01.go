package seq

import (
	"bytes"
	"fmt"
	"reflect"
	"strings"

	"github.com/ClickHouse/ch-go/proto"

	"verif/checks/seq/reg"
	"verif/checks/seq/regtab"
	"verif/refcol"
	"verif/refwire"
	"verif/vk"
)

// regEntries returns the registry for the tier.
func regEntries(c *vk.Ctx) []reg.Entry { return regtab.Generated }

// seqsOver enumerates all index sequences of length <= L over an alphabet of size n.
func seqsOver(n, L int) [][]int {
	out := [][]int{{}}
	var rec func(pre []int)
	rec = func(pre []int) {
		if len(pre) == L {
			return
		}
		for i := 0; i < n; i++ {
			s := append(append([]int{}, pre...), i)
			out = append(out, s)
			rec(s)
		}
	}
	rec(nil)
	return out
}

// the newest revision, the last one before each block-affecting feature, and the feature
// revisions themselves (a gate written with > instead of >= shows only there)
var c01Revs = []int{54460, refwire.RevCustomSerialization - 1, refwire.RevBlockInfo - 1, refwire.RevCustomSerialization, refwire.RevBlockInfo}

// noRef reports column types whose library representation is self-consistent but is not the
// server's format (documented in DESIGN: LowCardinality(Nullable(T))), so the reference
// decoder does not apply.
func noRef(label string) bool { return strings.Contains(label, "LowCardinality(Nullable(") }

type blockCase struct {
	label string
	entry reg.Entry
	vals  []reg.Val
	canon []any
}

// encodeBlock1 encodes a one-column block with the library.
func encodeBlock1(col proto.Column, name string, rev int, prefix []byte) ([]byte, error) {
	buf := proto.Buffer{Buf: append([]byte{}, prefix...)}
	blk := proto.Block{Info: proto.BlockInfo{BucketNum: -1}, Columns: 1, Rows: col.Rows()}
	if err := blk.EncodeBlock(&buf, rev, []proto.InputColumn{{Name: name, Data: col}}); err != nil {
		return nil, err
	}
	return buf.Buf, nil
}

func build(e reg.Entry, idx []int) (*reg.Col, []reg.Val, []any, error) {
	col, err := reg.Wrap(e.New(), e.Label)
	if err != nil {
		return nil, nil, nil, err
	}
	alpha := col.Alphabet()
	var vals []reg.Val
	var canon []any
	for _, i := range idx {
		v := alpha[i%len(alpha)]
		col.Append(v)
		vals = append(vals, v)
		canon = append(canon, col.Canon(v))
	}
	return col, vals, canon, nil
}

func rowsCanon(col *reg.Col) []any {
	n := col.C.Rows()
	out := make([]any, n)
	for i := 0; i < n; i++ {
		out[i] = col.Canon(col.Row(i))
	}
	return out
}

// c01One checks one (entry, value sequence) at every revision and buffer state; returns a
// hash of everything produced (for the cross-build transcript).
func c01One(c *vk.Ctx, prop string, e reg.Entry, idx []int, id string) uint64 {
	var th uint64
	fail := func(kind, detail string) {
		c.Violation(prop+"/"+kind+"/"+e.Label, id, detail, nil)
	}
	msg, fn := vk.Recover(func() {
		col, _, want, err := build(e, idx)
		if err != nil {
			fail("registry", err.Error())
			return
		}
		if col.C.Rows() != len(idx) {
			fail("rows-after-append", fmt.Sprintf("Rows()=%d after %d appends", col.C.Rows(), len(idx)))
			return
		}
		for _, rev := range c01Revs {
			plain, err := encodeBlock1(col.C, "col", rev, nil)
			if err != nil {
				fail("encode-error", err.Error())
				return
			}
			th = vk.Hash(th, plain)
			// (d) bytes do not depend on what the buffer already held
			for _, prefix := range [][]byte{{0xAA}, {1, 2, 3, 4, 5, 6, 7, 8, 9}} {
				// a fresh, identically built column: encoding must not depend on earlier encodes either
				col2, _, _, _ := build(e, idx)
				withP, err := encodeBlock1(col2.C, "col", rev, prefix)
				if err != nil || !bytes.HasPrefix(withP, prefix) || !bytes.Equal(withP[len(prefix):], plain) {
					fail("buffer-dependent-bytes", fmt.Sprintf("rev %d: encoding after a %d-byte prefix gives %s, into an empty buffer %s (err %v)", rev, len(prefix), vk.Hex(withP), vk.Hex(plain), err))
					return
				}
			}
			// encoding the same column object again re-sends the same rows
			again, err := encodeBlock1(col.C, "col", rev, nil)
			if err != nil || !bytes.Equal(again, plain) {
				fail("re-encode-differs", fmt.Sprintf("rev %d: second encode %s first %s", rev, vk.Hex(again), vk.Hex(plain)))
				return
			}
			// (e) vectored path
			sink := &sink14{failAt: -1}
			w := proto.NewWriter(sink, new(proto.Buffer))
			blk := proto.Block{Info: proto.BlockInfo{BucketNum: -1}, Columns: 1, Rows: col.C.Rows()}
			if err := blk.WriteBlock(w, rev, []proto.InputColumn{{Name: "col", Data: col.C}}); err != nil {
				fail("write-block-error", err.Error())
				return
			}
			if _, err := w.Flush(); err != nil || !bytes.Equal(sink.got, plain) {
				fail("write-path-differs", fmt.Sprintf("rev %d: WriteBlock+Flush %s, EncodeBlock %s", rev, vk.Hex(sink.got), vk.Hex(plain)))
				return
			}
			// (c) reference decoding
			if !noRef(e.Label) {
				r := refwire.NewR(plain)
				_, rows, cols := refcol.DecodeBlockBody(r, rev)
				switch {
				case r.Err != nil:
					fail("reference-cannot-decode", fmt.Sprintf("rev %d: %v; bytes %s", rev, r.Err, vk.Hex(plain)))
					return
				case r.Left() != 0:
					fail("reference-leftover", fmt.Sprintf("rev %d: %d bytes left; bytes %s", rev, r.Left(), vk.Hex(plain)))
					return
				case rows != len(idx) || len(cols) != 1 || cols[0].Name != "col" || cols[0].Type.Name != string(col.C.Type()):
					fail("reference-header", fmt.Sprintf("rev %d: rows=%d cols=%d", rev, rows, len(cols)))
					return
				case !refcol.Equal(anyList(cols[0].Vals), anyList(want)):
					fail("reference-values", fmt.Sprintf("rev %d: wire holds %s, appended %s; bytes %s", rev, refcol.Show(anyList(cols[0].Vals)), refcol.Show(anyList(want)), vk.Hex(plain)))
					return
				}
			}
			// (a) typed decode into a fresh column
			fresh, err := reg.Wrap(e.New(), e.Label)
			if err != nil {
				fail("registry", err.Error())
				return
			}
			rd := proto.NewReader(bytes.NewReader(plain))
			var db proto.Block
			if err := db.DecodeBlock(rd, rev, proto.Results{{Name: "col", Data: fresh.C}}); err != nil {
				fail("typed-decode-error", fmt.Sprintf("rev %d: %v; bytes %s", rev, err, vk.Hex(plain)))
				return
			}
			if n := leftover(rd); n != 0 {
				fail("typed-decode-leftover", fmt.Sprintf("rev %d: %d bytes unread", rev, n))
				return
			}
			if db.Rows != len(idx) || db.Columns != 1 || fresh.C.Rows() != len(idx) {
				fail("typed-decode-rows", fmt.Sprintf("rev %d: block %dx%d, column rows %d, want %d", rev, db.Columns, db.Rows, fresh.C.Rows(), len(idx)))
				return
			}
			if got := rowsCanon(fresh); !refcol.Equal(anyList(got), anyList(want)) {
				fail("typed-decode-values", fmt.Sprintf("rev %d: decoded %s, appended %s", rev, refcol.Show(anyList(got)), refcol.Show(anyList(want))))
				return
			}
			if string(fresh.C.Type()) != string(col.C.Type()) {
				fail("typed-decode-type", fmt.Sprintf("%s vs %s", fresh.C.Type(), col.C.Type()))
				return
			}
			th = vk.Hash(th, fmt.Sprint(db.Rows, db.Columns))
			// (a+) nothing the library handed out may alias state shared with OTHER objects: a
			// second, unrelated column of the same composition and a string array are encoded and
			// decoded through their own buffers and readers; afterwards the first column must
			// still hold its values and the first encoding must be byte-for-byte what it was
			if rev == c01Revs[0] && len(idx) > 0 {
				keep := append([]byte{}, plain...)
				if msg := disturb01(e, idx, rev); msg != "" {
					fail("interleaved-second-object", msg)
					return
				}
				if !bytes.Equal(keep, plain) {
					fail("encoding-changed-by-other-object", fmt.Sprintf("rev %d: the encoded block changed while another column was encoded and decoded: %s -> %s", rev, vk.Hex(keep), vk.Hex(plain)))
					return
				}
				if got := rowsCanon(fresh); !refcol.Equal(anyList(got), anyList(want)) {
					fail("decoded-values-changed-by-other-object", fmt.Sprintf("rev %d: after another column was encoded and decoded the column holds %s, it held %s", rev, refcol.Show(anyList(got)), refcol.Show(anyList(want))))
					return
				}
				if again, err := encodeBlock1(col.C, "col", rev, nil); err != nil || !bytes.Equal(again, keep) {
					fail("re-encode-after-other-object-differs", fmt.Sprintf("rev %d: encoding the column again after another column was encoded and decoded gives %s (err %v), before %s", rev, vk.Hex(again), err, vk.Hex(keep)))
					return
				}
				if got := rowsCanon(col); !refcol.Equal(anyList(got), anyList(want)) {
					fail("appended-values-changed-by-other-object", fmt.Sprintf("rev %d: after another column was encoded and decoded the source column holds %s, it held %s", rev, refcol.Show(anyList(got)), refcol.Show(anyList(want))))
					return
				}
			}
			// (a++) a target with a history: the same typed target first receives another block of
			// the same composition, then this one (DecodeBlock resets its targets), then a
			// zero-row block of the same column: each time it must hold exactly that block
			if rev == c01Revs[0] && len(idx) > 0 {
				if msg := history01(e, idx, rev, plain, want); msg != "" {
					fail("target-with-history", msg)
					return
				}
			}
			// (a') the same contents as the reference server writes them (for LowCardinality also
			// with keys wider than the library would choose) must decode to the same values
			if !noRef(e.Label) && len(idx) > 0 {
				for _, kw := range []int{-1, 1, 3} {
					if kw >= 0 && !strings.Contains(e.Label, "LowCardinality") {
						continue
					}
					refcol.LCKeyWidth = kw
					var rw refwire.W
					refcol.EncodeBlockBody(&rw, rev, refwire.BlockInfo{BucketNum: -1}, len(want), []refcol.BlockCol{{Name: "col", Type: col.T, Vals: want}})
					refcol.LCKeyWidth = -1
					f2, _ := reg.Wrap(e.New(), e.Label)
					var b2 proto.Block
					if err := b2.DecodeBlock(proto.NewReader(bytes.NewReader(rw.B)), rev, proto.Results{{Name: "col", Data: f2.C}}); err != nil {
						fail("reference-block-rejected", fmt.Sprintf("rev %d keywidth %d: %v; bytes %s", rev, kw, err, vk.Hex(rw.B)))
						return
					}
					if got := rowsCanon(f2); !refcol.Equal(anyList(got), anyList(want)) {
						fail("reference-block-decodes-wrong", fmt.Sprintf("rev %d keywidth %d: decoded %s, block holds %s", rev, kw, refcol.Show(anyList(got)), refcol.Show(anyList(want))))
						return
					}
				}
			}
			// (a'') the same contents under the other spellings a server uses for the same wire
			// layout (Decimal(P, S) at both ends of each width's precision range, time zones):
			// typed target and inferred target must both give the values back
			if !noRef(e.Label) && len(idx) > 0 && rev == c01Revs[0] {
				for _, sp := range serverSpellings(col.T.Name) {
					st, perr := refcol.Parse(sp)
					if perr != nil {
						continue
					}
					var rw refwire.W
					refcol.EncodeBlockBody(&rw, rev, refwire.BlockInfo{BucketNum: -1}, len(want), []refcol.BlockCol{{Name: "col", Type: st, Vals: want}})
					// typed target: only where the equivalence is a documented one (element-wise under
					// Array / Nullable / LowCardinality; Map and Tuple compare their parameters as text)
					if !strings.Contains(e.Label, "Map(") && !strings.Contains(e.Label, "Tuple(") {
						f2, _ := reg.Wrap(e.New(), e.Label)
						var b2 proto.Block
						if err := b2.DecodeBlock(proto.NewReader(bytes.NewReader(rw.B)), rev, proto.Results{{Name: "col", Data: f2.C}}); err != nil {
							fail("server-spelling-rejected", fmt.Sprintf("block of type %s into a %s target: %v", sp, e.Label, err))
							return
						}
						if got := rowsCanon(f2); !refcol.Equal(anyList(got), anyList(want)) {
							fail("server-spelling-decodes-wrong", fmt.Sprintf("block of type %s into a %s target: decoded %s, block holds %s", sp, e.Label, refcol.Show(anyList(got)), refcol.Show(anyList(want))))
							return
						}
					}
					if new(proto.ColAuto).Infer(proto.ColumnType(sp)) != nil {
						continue
					}
					var res proto.Results
					var b3 proto.Block
					rd := proto.NewReader(bytes.NewReader(rw.B))
					if err := b3.DecodeBlock(rd, rev, res.Auto()); err != nil {
						fail("server-spelling-auto-rejected", fmt.Sprintf("block of type %s through Auto: %v", sp, err))
						return
					}
					if left := leftover(rd); left != 0 || len(res) != 1 || res[0].Data.Rows() != len(want) {
						fail("server-spelling-auto-shape", fmt.Sprintf("block of type %s through Auto: %d columns, %d bytes unread", sp, len(res), left))
						return
					}
					if ac, ok := unwrapAuto(res[0].Data); ok && hasRow(ac) {
						if aw, err := reg.WrapAs(ac, col.T, e.Label); err == nil {
							if got := rowsCanonAs(aw, nil); got != nil && !refcol.Equal(anyList(got), anyList(want)) {
								fail("server-spelling-auto-decodes-wrong", fmt.Sprintf("block of type %s through Auto: decoded %s, block holds %s", sp, refcol.Show(anyList(got)), refcol.Show(anyList(want))))
								return
							}
						}
					}
				}
			}
			// (b) through automatic inference where the type is inferable
			probe := new(proto.ColAuto)
			if ierr := probe.Infer(col.C.Type()); ierr == nil {
				var res proto.Results
				rd := proto.NewReader(bytes.NewReader(plain))
				var ab proto.Block
				if err := ab.DecodeBlock(rd, rev, res.Auto()); err != nil {
					fail("auto-decode-error", fmt.Sprintf("rev %d: %v", rev, err))
					return
				}
				if len(res) != 1 || res[0].Name != "col" || res[0].Data.Rows() != len(idx) {
					fail("auto-decode-shape", fmt.Sprintf("rev %d: %d result columns", rev, len(res)))
					return
				}
				if proto.ColumnType(res[0].Data.Type()).Conflicts(col.C.Type()) {
					fail("auto-decode-type", fmt.Sprintf("inferred %s for %s", res[0].Data.Type(), col.C.Type()))
					return
				}
				ac, ok := unwrapAuto(res[0].Data)
				if ok {
					if aw, err := reg.WrapAs(ac, col.T, e.Label); err == nil && hasRow(ac) {
						if got := rowsCanonAs(aw, fresh); got != nil && !refcol.Equal(anyList(got), anyList(want)) {
							fail("auto-decode-values", fmt.Sprintf("rev %d: inferred column holds %s, appended %s", rev, refcol.Show(anyList(got)), refcol.Show(anyList(want))))
							return
						}
					}
				}
				// (c) into an explicit inferring target (proto.AutoResult), twice: the ColAuto itself is
				// the bound column, so everything the inferred column needs (state prefix, preparation)
				// has to pass through it; then the same ColAuto as an input column
				at := proto.Results{proto.AutoResult("col")}
				for pass := 0; pass < 2; pass++ {
					var tb proto.Block
					if err := tb.DecodeBlock(proto.NewReader(bytes.NewReader(plain)), rev, at); err != nil {
						fail("autoresult-decode-error", fmt.Sprintf("rev %d pass %d: %v", rev, pass, err))
						return
					}
					tc, ok := unwrapAuto(at[0].Data)
					if !ok || at[0].Data.Rows() != len(idx) {
						fail("autoresult-decode-shape", fmt.Sprintf("rev %d pass %d: %d rows", rev, pass, at[0].Data.Rows()))
						return
					}
					if aw, err := reg.WrapAs(tc, col.T, e.Label); err == nil && hasRow(tc) {
						if got := rowsCanonAs(aw, fresh); got != nil && !refcol.Equal(anyList(got), anyList(want)) {
							fail("autoresult-decode-values", fmt.Sprintf("rev %d pass %d: inferred column holds %s, appended %s", rev, pass, refcol.Show(anyList(got)), refcol.Show(anyList(want))))
							return
						}
					}
				}
				if ca, ok := at[0].Data.(*proto.ColAuto); ok {
					if again, err := encodeBlock1(ca, "col", rev, nil); err != nil || !bytes.Equal(again, plain) {
						fail("autoresult-reencode", fmt.Sprintf("rev %d: a ColAuto holding the decoded column encodes to other bytes (first difference at %d, err %v)", rev, firstDiff(again, plain), err))
						return
					}
				}
			}
		}
	})
	if msg != "" {
		fail("panic/"+fn, msg)
	}
	return th
}

func anyList(v []any) any { return v }

// disturb01 exercises a second object of the same composition (other values: the sequence
// reversed and rotated) and an Array(String) column through their own buffers and readers.
func disturb01(e reg.Entry, idx []int, rev int) string {
	other := make([]int, len(idx))
	for i := range idx {
		other[i] = idx[len(idx)-1-i] + 1
	}
	probe, err := reg.Wrap(e.New(), e.Label)
	if err != nil {
		return ""
	}
	na := len(probe.Alphabet())
	for i := range other {
		other[i] %= na
	}
	c2, _, want2, err := build(e, other)
	if err != nil {
		return ""
	}
	b2, err := encodeBlock1(c2.C, "col", rev, []byte{7})
	if err != nil {
		return ""
	}
	f2, _ := reg.Wrap(e.New(), e.Label)
	var db proto.Block
	if err := db.DecodeBlock(proto.NewReader(bytes.NewReader(b2[1:])), rev, proto.Results{{Name: "col", Data: f2.C}}); err != nil {
		return "second object of the same composition does not decode: " + err.Error()
	}
	if got := rowsCanon(f2); !refcol.Equal(anyList(got), anyList(want2)) {
		return "second object of the same composition decodes to other values than it was given"
	}
	arr := proto.NewArray[string](new(proto.ColStr))
	arr.Append([]string{"disturb", "", "other-object"})
	b3, err := encodeBlock1(arr, "col", rev, nil)
	if err != nil {
		return ""
	}
	a2 := proto.NewArray[string](new(proto.ColStr))
	var db3 proto.Block
	if err := db3.DecodeBlock(proto.NewReader(bytes.NewReader(b3)), rev, proto.Results{{Name: "col", Data: a2}}); err != nil {
		return "Array(String) side block does not decode: " + err.Error()
	}
	return ""
}

// history01 decodes, into ONE typed target: another block of the same composition, then
// the block under test, then a zero-row block of the same column.
func history01(e reg.Entry, idx []int, rev int, plain []byte, want []any) string {
	probe, err := reg.Wrap(e.New(), e.Label)
	if err != nil {
		return ""
	}
	na := len(probe.Alphabet())
	other := make([]int, len(idx)+1)
	for i := range other {
		other[i] = (i + 1 + idx[0]) % na
	}
	c2, _, want2, err := build(e, other)
	if err != nil {
		return ""
	}
	b2, err := encodeBlock1(c2.C, "col", rev, nil)
	if err != nil {
		return ""
	}
	empty, _ := reg.Wrap(e.New(), e.Label)
	b0, err := encodeBlock1(empty.C, "col", rev, nil)
	if err != nil {
		return ""
	}
	target, _ := reg.Wrap(e.New(), e.Label)
	res := proto.Results{{Name: "col", Data: target.C}}
	for step, st := range []struct {
		b    []byte
		want []any
	}{{b2, want2}, {plain, want}, {b0, nil}, {plain, want}} {
		var db proto.Block
		if err := db.DecodeBlock(proto.NewReader(bytes.NewReader(st.b)), rev, res); err != nil {
			return fmt.Sprintf("step %d: %v", step, err)
		}
		if target.C.Rows() != len(st.want) {
			return fmt.Sprintf("step %d: a block of %d rows decoded into a used target leaves %d rows in it", step, len(st.want), target.C.Rows())
		}
		if got := rowsCanon(target); !refcol.Equal(anyList(got), anyList(st.want)) && len(st.want) > 0 {
			return fmt.Sprintf("step %d: used target holds %s, the block holds %s", step, refcol.Show(anyList(got)), refcol.Show(anyList(st.want)))
		}
	}
	return ""
}

func firstDiff(a, b []byte) int {
	for i := 0; i < len(a) && i < len(b); i++ {
		if a[i] != b[i] {
			return i
		}
	}
	return min(len(a), len(b))
}

// serverSpellings lists other type strings with the same wire layout as t, as a server
// spells them: Decimal(P, S) for the fixed-width decimals (both ends of each precision
// range), explicit time zones for the timestamps.
func serverSpellings(t string) []string {
	type rw struct{ from, to string }
	var out []string
	for _, r := range []rw{
		{"Decimal32", "Decimal(1, 0)"}, {"Decimal32", "Decimal(9, 2)"},
		{"Decimal64", "Decimal(10, 2)"}, {"Decimal64", "Decimal(18, 4)"},
		{"Decimal128", "Decimal(19, 4)"}, {"Decimal128", "Decimal(38, 10)"},
		{"Decimal256", "Decimal(39, 10)"}, {"Decimal256", "Decimal(76, 20)"},
		{"DateTime64(3)", "DateTime64(3, 'UTC')"}, {"DateTime64(9)", "DateTime64(9, 'Europe/Berlin')"},
	} {
		if strings.Contains(t, r.from) {
			out = append(out, strings.ReplaceAll(t, r.from, r.to))
		}
	}
	if strings.Contains(t, "DateTime") && !strings.Contains(t, "DateTime64") && !strings.Contains(t, "DateTime(") {
		out = append(out, strings.ReplaceAll(t, "DateTime", "DateTime('UTC')"))
	}
	return out
}

// unwrapAuto returns the column an inferred result holds (ColAuto only delegates the
// Column interface; the row accessors live on the column inside).
func unwrapAuto(r proto.ColResult) (proto.Column, bool) {
	if a, ok := r.(*proto.ColAuto); ok && a.Data != nil {
		return a.Data, true
	}
	c, ok := r.(proto.Column)
	return c, ok
}

func hasRow(c proto.Column) bool {
	if _, ok := c.(proto.ColTuple); ok {
		return true
	}
	return reflect.ValueOf(c).MethodByName("Row").IsValid()
}

// rowsCanonAs reads the rows of an inferred column in canonical form. The inferred column
// may use a different Go representation than the typed one (e.g. raw enum numbers instead
// of names); the canonical form is what makes them comparable. Returns nil when the
// inferred column offers no usable row accessor.
func rowsCanonAs(inferred, typed *reg.Col) (out []any) {
	defer func() {
		if r := recover(); r != nil {
			out = nil
		}
	}()
	return rowsCanon(inferred)
}

// C01 — block encode -> decode is the identity for every column type and nesting.
func C01(c *vk.Ctx) {
	c.Rule("every column composition of the generated registry (45 base columns; Array / Nullable / LowCardinality / Map(String,.) / Map(.,String) / Tuple(.,String) wrappers wherever the exported generic constructors type-check, to depth 2; plus six tuples in which an element that needs no preparation precedes one that does) x every value sequence of length <= L (quick 2, thorough 4; 5 for the 45 base columns) over the per-type boundary alphabet (0, +-1, min, max, NaN/Inf/-0/denormal, strings of 0/1/127/128 bytes, nulls, empty and nested arrays, range ends of the date types) x revisions {54460, 54454, 54453, 51903, 51902} (each block-affecting feature's own revision and the one before it) x output buffer {empty, 1 byte, 9 bytes pre-filled}; plus size-triggered cases (65535 / 65536 / 65537 / 131073 rows of 17 compositions; LowCardinality dictionaries of 254..257 and 65534..65537 distinct values, strings of 16383 / 16384 / 2^20-1 / 2^20 / 2^20+1 / 2^21-1 / 2^21 bytes in String, Array(String), LowCardinality(String) and Nullable(String), decoded into a fresh and into a used-and-Reset column). Oracles: typed decode into a fresh column and into a target with a history (another block of the composition, then this one, then a zero-row block, then this one again), typed decode of the same contents as the reference server writes them (LowCardinality keys of 8, 16 and 64 bits) and as the server spells the type (Decimal(P, S) at both ends of each width's precision range, explicit time zones; typed and inferred targets), decode through Results.Auto where ColAuto.Infer accepts the type, independent reference decode (refcol) with exact consumption, buffer independence, independence from a second object of the same composition and an unrelated column encoded and decoded in between (no hidden shared state), re-encode equality, WriteBlock+Flush = EncodeBlock; the same run in the purego build must produce the same transcript. distinct_nontrivial = (composition, value sequence) cases with at least one row.")
	L := 2
	if !c.Quick() {
		L = 4
	}
	// besides the registry (whose tuples put the composed element first): tuples in which an
	// element that needs no preparation stands before one that does (dictionary, enum, nested)
	entries := append([]reg.Entry{}, regEntries(c)...)
	lcs := func() proto.Column { return proto.NewLowCardinality[string](new(proto.ColStr)) }
	entries = append(entries,
		reg.Entry{Label: "Tuple(UInt32, LowCardinality(String))", Depth: 2, New: func() proto.Column { return proto.ColTuple{new(proto.ColUInt32), lcs()} }},
		reg.Entry{Label: "Tuple(String, Array(LowCardinality(String)))", Depth: 2, New: func() proto.Column {
			return proto.ColTuple{new(proto.ColStr), proto.NewArray[string](proto.NewLowCardinality[string](new(proto.ColStr)))}
		}},
		reg.Entry{Label: "Tuple(String, UInt8, LowCardinality(String))", Depth: 2, New: func() proto.Column { return proto.ColTuple{new(proto.ColStr), new(proto.ColUInt8), lcs()} }},
		reg.Entry{Label: "Tuple(UInt8, Enum8('a'=1,'b'=2,'c'=-3))", Depth: 2, New: func() proto.Column { return proto.ColTuple{new(proto.ColUInt8), reg.Enum("Enum8('a' = 1, 'b' = 2, 'c' = -3)")} }},
		reg.Entry{Label: "Tuple(UInt8, Tuple(UInt8, LowCardinality(String)))", Depth: 2, New: func() proto.Column {
			return proto.ColTuple{new(proto.ColUInt8), proto.ColTuple{new(proto.ColUInt8), lcs()}}
		}},
		reg.Entry{Label: "Tuple(LowCardinality(String), UInt8, LowCardinality(String))", Depth: 2, New: func() proto.Column { return proto.ColTuple{lcs(), new(proto.ColUInt8), lcs()} }},
	)
	for ei, e := range entries {
		if c.Only == "" && !c.Mine(int64(ei)) {
			continue
		}
		probe, err := reg.Wrap(e.New(), e.Label)
		if err != nil {
			c.Violation("C01/registry/"+e.Label, e.Label, err.Error(), nil)
			continue
		}
		var na int
		if msg, _ := vk.Recover(func() { na = len(probe.Alphabet()) }); msg != "" {
			c.Violation("C01/registry/"+e.Label, e.Label, "alphabet: "+msg, nil)
			continue
		}
		var th uint64
		le := L
		if !c.Quick() && e.Depth == 0 {
			le = L + 1
		}
		for _, idx := range seqsOver(na, le) {
			id := fmt.Sprintf("%s/%v", e.Label, idx)
			if c.Only != "" && c.Only != id {
				continue
			}
			c.Current(id)
			th = vk.Hash(th, c01One(c, "C01", e, idx, id))
			c.Eval("compositions x sequences", 1)
			if len(idx) > 0 {
				c.DistinctN(1)
			}
		}
		c.T("bytes|"+e.Label, fmt.Sprintf("%016x", th))
	}
	c01Sizes(c)
	c.Sample(map[string]any{"composition": "Array(LowCardinality(String))", "sequence": "[[], [\"a\"], [\"\", s*127, t*128]]", "revisions": c01Revs, "oracles": []string{"typed decode", "Auto decode", "refcol decode", "prefix independence", "re-encode", "WriteBlock path"}})
}

// c01Sizes: size-triggered cases that the per-type alphabets cannot reach.
func c01Sizes(c *vk.Ctx) {
	type sz struct {
		label string
		mk    func(n int) (proto.Column, []any)
	}
	strRef := func(i int) any { return []byte(fmt.Sprintf("key-%d", i)) }
	cases := []sz{
		{"LowCardinality(String)", func(n int) (proto.Column, []any) {
			col := proto.NewLowCardinality[string](new(proto.ColStr))
			var want []any
			for i := 0; i < n+3; i++ {
				col.Append(fmt.Sprintf("key-%d", i%n))
				want = append(want, strRef(i%n))
			}
			return col, want
		}},
		{"LowCardinality(UInt32)", func(n int) (proto.Column, []any) {
			col := proto.NewLowCardinality[uint32](new(proto.ColUInt32))
			var want []any
			for i := 0; i < n+3; i++ {
				col.Append(uint32(i%n) * 3)
				want = append(want, []byte{byte(uint32(i%n) * 3), byte((uint32(i%n) * 3) >> 8), byte((uint32(i%n) * 3) >> 16), byte((uint32(i%n) * 3) >> 24)})
			}
			return col, want
		}},
		{"Array(LowCardinality(String))", func(n int) (proto.Column, []any) {
			col := proto.NewArray[string](proto.NewLowCardinality[string](new(proto.ColStr)))
			var want []any
			var row []string
			var wrow []any
			for i := 0; i < n+3; i++ {
				row = append(row, fmt.Sprintf("key-%d", i%n))
				wrow = append(wrow, strRef(i%n))
				if i%1000 == 999 || i == n+2 {
					col.Append(row)
					want = append(want, wrow)
					row, wrow = nil, nil
				}
			}
			return col, want
		}},
	}
	n := int64(0)
	for _, k := range cases {
		for _, distinct := range []int{1, 254, 255, 256, 257, 65534, 65535, 65536, 65537} {
			n++
			id := fmt.Sprintf("size/%s/distinct=%d", k.label, distinct)
			if c.Only != "" && c.Only != id {
				continue
			}
			if c.Only == "" && !c.Mine(n) {
				continue
			}
			c.Current(id)
			msg, fn := vk.Recover(func() {
				col, want := k.mk(distinct)
				for _, rev := range c01Revs[:2] {
					b, err := encodeBlock1(col, "col", rev, nil)
					if err != nil {
						c.Violation("C01/size/encode-error/"+k.label, id, err.Error(), nil)
						return
					}
					r := refwire.NewR(b)
					_, _, cols := refcol.DecodeBlockBody(r, rev)
					if r.Err != nil || r.Left() != 0 || !refcol.Equal(anyList(cols[0].Vals), anyList(want)) {
						c.Violation("C01/size/reference-values/"+k.label, id, fmt.Sprintf("dictionary of %d distinct values: reference decode err=%v left=%d", distinct, r.Err, r.Left()), nil)
						return
					}
					fresh, _ := k.mk(1)
					fresh.(proto.Resettable).Reset()
					var db proto.Block
					if err := db.DecodeBlock(proto.NewReader(bytes.NewReader(b)), rev, proto.Results{{Name: "col", Data: fresh}}); err != nil {
						c.Violation("C01/size/typed-decode-error/"+k.label, id, err.Error(), nil)
						return
					}
					fw, _ := reg.Wrap(fresh, k.label)
					if got := rowsCanon(fw); !refcol.Equal(anyList(got), anyList(want)) {
						c.Violation("C01/size/typed-decode-values/"+k.label, id, fmt.Sprintf("dictionary of %d distinct values does not round-trip", distinct), nil)
						return
					}
				}
			})
			if msg != "" {
				c.Violation("C01/size/panic/"+k.label+"/"+fn, id, msg, nil)
			}
			c.Eval("size-triggered", 1)
			c.DistinctN(1)
		}
	}
	// many rows: 65535 / 65536 / 65537 / 131073 rows (steps at which a decoder may start to
	// read in pieces) of a dozen compositions, through the full per-case oracle
	{
		var km int64
		for _, label := range []string{"UInt8", "UInt64", "UUID", "Int256", "Bool", "String", "FixedString(3)", "DateTime64(3)", "Array(UInt16)", "Array(String)", "Nullable(UInt32)",
			"Nullable(String)", "Map(String, UInt8)", "LowCardinality(String)", "Array(LowCardinality(String))", "Tuple(String, String)", "Enum8('a'=1,'b'=2,'c'=-3)"} {
			e, ok := regtab.ByLabel(label)
			if !ok {
				continue
			}
			for _, rows := range []int{65535, 65536, 65537, 131073} {
				km++
				id := fmt.Sprintf("many/%s/rows=%d", label, rows)
				if c.Only != "" && c.Only != id {
					continue
				}
				if c.Only == "" && (!c.Mine(km) || (c.Quick() && rows == 131073 && strings.Contains(label, "("))) {
					continue
				}
				idx := make([]int, rows)
				for i := range idx {
					idx[i] = (i*7 + i/251) % 5
				}
				c.Current(id)
				c01One(c, "C01", e, idx, id)
				c.Eval("size-triggered", 1)
				c.DistinctN(1)
			}
		}
	}
	// long strings around the 2-byte / 3-byte varint boundaries and around the 1 MiB step in
	// which the readers allocate strings whose length came from the wire; in four carriers;
	// decoded into a fresh column and into a used and Reset one
	type carrier struct {
		label string
		mk    func() proto.Column
		fill  func(col proto.Column, s string)
		want  func(s string) []any
	}
	carriers := []carrier{
		{"String", func() proto.Column { return new(proto.ColStr) },
			func(col proto.Column, s string) { col.(*proto.ColStr).Append(s); col.(*proto.ColStr).Append("tail") },
			func(s string) []any { return []any{[]byte(s), []byte("tail")} }},
		{"Array(String)", func() proto.Column { return proto.NewArray[string](new(proto.ColStr)) },
			func(col proto.Column, s string) { col.(*proto.ColArr[string]).Append([]string{"head", s}) },
			func(s string) []any { return []any{[]any{[]byte("head"), []byte(s)}} }},
		{"LowCardinality(String)", func() proto.Column { return proto.NewLowCardinality[string](new(proto.ColStr)) },
			func(col proto.Column, s string) {
				lc := col.(*proto.ColLowCardinality[string])
				lc.Append("k")
				lc.Append(s)
				lc.Append("k")
			},
			func(s string) []any { return []any{[]byte("k"), []byte(s), []byte("k")} }},
		{"Nullable(String)", func() proto.Column { return proto.NewColNullable[string](new(proto.ColStr)) },
			func(col proto.Column, s string) {
				nc := col.(*proto.ColNullable[string])
				nc.Append(proto.Null[string]())
				nc.Append(proto.NewNullable(s))
			},
			func(s string) []any { return []any{nil, []byte(s)} }},
	}
	k := int64(0)
	for _, cr := range carriers {
		for _, ln := range []int{16383, 16384, 1048575, 1048576, 1048577, 2097151, 2097152} {
			k++
			id := fmt.Sprintf("size/%s/len=%d", cr.label, ln)
			if c.Only != "" && c.Only != id {
				continue
			}
			if c.Only == "" && !c.Mine(k) {
				continue
			}
			c.Current(id)
			msg, fn := vk.Recover(func() {
				buf := make([]byte, ln)
				for i := range buf {
					buf[i] = byte('a' + i%19)
				}
				s := string(buf)
				col := cr.mk()
				cr.fill(col, s)
				want := cr.want(s)
				b, err := encodeBlock1(col, "col", 54460, nil)
				if err != nil {
					c.Violation("C01/size/long-string/encode-error/"+cr.label, id, err.Error(), nil)
					return
				}
				{
					sink := &sink14{failAt: -1}
					w := proto.NewWriter(sink, new(proto.Buffer))
					blk := proto.Block{Info: proto.BlockInfo{BucketNum: -1}, Columns: 1, Rows: col.Rows()}
					if werr := blk.WriteBlock(w, 54460, []proto.InputColumn{{Name: "col", Data: col}}); werr != nil {
						c.Violation("C01/size/long-string/write-error/"+cr.label, id, werr.Error(), nil)
						return
					}
					if _, ferr := w.Flush(); ferr != nil || !bytes.Equal(sink.got, b) {
						c.Violation("C01/size/long-string/write-path-differs/"+cr.label, id, fmt.Sprintf("string of %d bytes: WriteBlock+Flush gives other bytes than EncodeBlock (%d vs %d bytes, first difference at %d)", ln, len(sink.got), len(b), firstDiff(sink.got, b)), nil)
						return
					}
				}
				r := refwire.NewR(b)
				_, _, cols := refcol.DecodeBlockBody(r, 54460)
				if r.Err != nil || r.Left() != 0 || len(cols) != 1 || !refcol.Equal(anyList(cols[0].Vals), anyList(want)) {
					c.Violation("C01/size/long-string/reference-values/"+cr.label, id, fmt.Sprintf("string of %d bytes: the wire does not hold the appended values (ref err %v, %d left)", ln, r.Err, r.Left()), nil)
					return
				}
				used := cr.mk()
				cr.fill(used, "previous contents "+s[:ln/2])
				used.(proto.Resettable).Reset()
				for ti, target := range []proto.Column{cr.mk(), used} {
					var db proto.Block
					if derr := db.DecodeBlock(proto.NewReader(bytes.NewReader(b)), 54460, proto.Results{{Name: "col", Data: target}}); derr != nil {
						c.Violation("C01/size/long-string/typed-decode-error/"+cr.label, id, fmt.Sprintf("target %d: %v", ti, derr), nil)
						return
					}
					fw, _ := reg.Wrap(target, cr.label)
					if got := rowsCanon(fw); !refcol.Equal(anyList(got), anyList(want)) {
						c.Violation("C01/size/long-string/typed-decode-values/"+cr.label, id, fmt.Sprintf("string of %d bytes does not round-trip into target %d (0 fresh, 1 used and Reset)", ln, ti), nil)
						return
					}
				}
			})
			if msg != "" {
				c.Violation("C01/size/panic/"+cr.label+"/"+fn, id, msg, nil)
			}
			c.Eval("size-triggered", 1)
			c.DistinctN(1)
		}
	}
}
