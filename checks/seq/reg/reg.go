// Package reg is the registry of typed column compositions (generated) plus the
// reflection glue that lets the checks treat every column uniformly: append Go values,
// read rows back, and map a Go value to the reference model's canonical wire value.
package reg

import "github.com/ClickHouse/ch-go/proto"

// Entry is one column composition.
type Entry struct {
	Label string
	Depth int
	New   func() proto.Column
}

func mustEnum(ddl string) *proto.ColEnum {
	c := new(proto.ColEnum)
	if err := c.Infer(proto.ColumnType(ddl)); err != nil {
		panic(err)
	}
	return c
}

// Enum returns a name-based enum column that has adopted the given definition.
func Enum(ddl string) *proto.ColEnum { return mustEnum(ddl) }
