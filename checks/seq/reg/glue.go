package reg

import (
	"encoding/binary"
	"fmt"
	"math"
	"reflect"
	"strconv"
	"strings"
	"time"

	"github.com/ClickHouse/ch-go/proto"

	"verif/refcol"
)

// Col wraps a library column with its parsed reference type.
type Col struct {
	C     proto.Column
	T     *refcol.Type
	Label string
	tuple proto.ColTuple // non-nil for tuples (they have no typed Append / Row)
	elems []*Col
}

// Val is an opaque element value: what Append takes / Row returns (for tuples one value
// per element column; for maps the ordered []KV form).
type Val struct {
	V  reflect.Value
	Tu []Val
}

// Wrap prepares a column for uniform handling. The reference type is parsed from the
// column's own Type() string.
func Wrap(c proto.Column, label string) (*Col, error) {
	t, err := refcol.Parse(string(c.Type()))
	if err != nil {
		return nil, fmt.Errorf("%s: type %q: %v", label, c.Type(), err)
	}
	return wrapT(c, t, label)
}

// WrapAs wraps c but canonicalises its values under type t rather than under the type the
// column itself reports: what the column's rows mean when read as values of t.
func WrapAs(c proto.Column, t *refcol.Type, label string) (*Col, error) { return wrapT(c, t, label) }

func wrapT(c proto.Column, t *refcol.Type, label string) (*Col, error) {
	col := &Col{C: c, T: t, Label: label}
	if tu, ok := c.(proto.ColTuple); ok {
		col.tuple = tu
		if len(tu) != len(t.Elems) {
			return nil, fmt.Errorf("%s: tuple arity", label)
		}
		for i, e := range tu {
			ec, err := wrapT(e, t.Elems[i], label)
			if err != nil {
				return nil, err
			}
			col.elems = append(col.elems, ec)
		}
	}
	return col, nil
}

func (c *Col) method(name string) reflect.Value {
	m := reflect.ValueOf(c.C).MethodByName(name)
	if !m.IsValid() {
		// ColNamed wraps the data column in an embedded interface field
		panic(fmt.Sprintf("%s (%T) has no method %s", c.Label, c.C, name))
	}
	return m
}

func (c *Col) isMap() bool { return c.T.Kind == refcol.Map }

// Append appends one element.
func (c *Col) Append(v Val) {
	if c.tuple != nil {
		for i, e := range c.elems {
			e.Append(v.Tu[i])
		}
		return
	}
	if c.isMap() {
		c.method("AppendKV").Call([]reflect.Value{v.V})
		return
	}
	c.method("Append").Call([]reflect.Value{v.V})
}

// Row reads element i.
func (c *Col) Row(i int) Val {
	if c.tuple != nil {
		var out Val
		for _, e := range c.elems {
			out.Tu = append(out.Tu, e.Row(i))
		}
		return out
	}
	name := "Row"
	if c.isMap() {
		name = "RowKV"
	}
	return Val{V: c.method(name).Call([]reflect.Value{reflect.ValueOf(i)})[0]}
}

func (c *Col) elemType() reflect.Type {
	if c.isMap() {
		return c.method("AppendKV").Type().In(0)
	}
	return c.method("Append").Type().In(0)
}

// Alphabet returns the boundary values of the column's element type.
func (c *Col) Alphabet() []Val {
	if c.tuple != nil {
		var per [][]Val
		n := 0
		for _, e := range c.elems {
			a := e.Alphabet()
			per = append(per, a)
			if len(a) > n {
				n = len(a)
			}
		}
		var out []Val
		for i := 0; i < n; i++ {
			var v Val
			for _, a := range per {
				v.Tu = append(v.Tu, a[i%len(a)])
			}
			out = append(out, v)
		}
		return out
	}
	var out []Val
	for _, v := range alphabet(c.elemType(), c.T) {
		out = append(out, Val{V: v})
	}
	return out
}

// Canon maps an element value to the reference model's canonical value.
func (c *Col) Canon(v Val) any {
	if c.tuple != nil {
		tp := make(refcol.Tup, len(c.elems))
		for i, e := range c.elems {
			tp[i] = e.Canon(v.Tu[i])
		}
		return tp
	}
	return canon(c.T, v.V)
}

// ---- alphabets ----

func le(width int, v uint64, neg bool) []byte {
	b := make([]byte, width)
	for i := 0; i < width; i++ {
		if i < 8 {
			b[i] = byte(v >> (8 * i))
		} else if neg {
			b[i] = 0xff
		}
	}
	return b
}

func mk(t reflect.Type, set func(v reflect.Value)) reflect.Value {
	v := reflect.New(t).Elem()
	set(v)
	return v
}

func enumNames(t *refcol.Type) []string {
	var out []string
	for _, a := range t.Args {
		name, _, _ := strings.Cut(a, "=")
		out = append(out, strings.Trim(strings.TrimSpace(name), "'"))
	}
	return out
}

func enumValue(t *refcol.Type, name string) (int, bool) {
	for _, a := range t.Args {
		n, v, _ := strings.Cut(a, "=")
		if strings.Trim(strings.TrimSpace(n), "'") == name {
			x, err := strconv.Atoi(strings.TrimSpace(v))
			return x, err == nil
		}
	}
	return 0, false
}

var timeType = reflect.TypeOf(time.Time{})

func alphabet(gt reflect.Type, t *refcol.Type) []reflect.Value {
	switch t.Kind {
	case refcol.LowCard:
		return alphabet(gt, t.Elems[0])
	case refcol.Nullable:
		// proto.Nullable[T]{Set, Value}
		inner := alphabet(gt.Field(1).Type, t.Elems[0])
		null := reflect.New(gt).Elem()
		if gt.Field(1).Type.Kind() == reflect.Slice && t.Elems[0].Kind == refcol.Fixed {
			// NULL of FixedString(N) held in a []byte column needs a zero value of N bytes
			null.Field(1).Set(reflect.ValueOf(make([]byte, t.Elems[0].Width)))
		}
		if gt.Field(1).Type.Kind() == reflect.String && t.Elems[0].Kind == refcol.Fixed {
			// NULL of an enum held by name needs a valid placeholder name
			null.Field(1).SetString(enumNames(t.Elems[0])[0])
		}
		out := []reflect.Value{null}
		for i, iv := range inner {
			if i >= 2 {
				break
			}
			out = append(out, mk(gt, func(v reflect.Value) { v.Field(0).SetBool(true); v.Field(1).Set(iv) }))
		}
		return out
	case refcol.Array:
		inner := alphabet(gt.Elem(), t.Elems[0])
		empty := reflect.MakeSlice(gt, 0, 0)
		one := reflect.Append(reflect.MakeSlice(gt, 0, 1), inner[0])
		many := reflect.MakeSlice(gt, 0, 3)
		for i := 0; i < 3; i++ {
			many = reflect.Append(many, inner[(i+1)%len(inner)])
		}
		return []reflect.Value{empty, one, many}
	case refcol.Map:
		if gt.Kind() == reflect.Map {
			// a map nested inside another column travels as a Go map, whose iteration order
			// is random: at most one pair per value keeps the wire order defined
			ks := alphabet(gt.Key(), t.Elems[0])
			vs := alphabet(gt.Elem(), t.Elems[1])
			empty := reflect.MakeMap(gt)
			one := reflect.MakeMap(gt)
			one.SetMapIndex(ks[0], vs[0])
			other := reflect.MakeMap(gt)
			other.SetMapIndex(ks[1%len(ks)], vs[1%len(vs)])
			return []reflect.Value{empty, one, other}
		}
		// []proto.KV[K,V]
		kvT := gt.Elem()
		ks := alphabet(kvT.Field(0).Type, t.Elems[0])
		vs := alphabet(kvT.Field(1).Type, t.Elems[1])
		pair := func(i int) reflect.Value {
			return mk(kvT, func(v reflect.Value) { v.Field(0).Set(ks[i%len(ks)]); v.Field(1).Set(vs[i%len(vs)]) })
		}
		empty := reflect.MakeSlice(gt, 0, 0)
		one := reflect.Append(reflect.MakeSlice(gt, 0, 1), pair(0))
		two := reflect.Append(reflect.Append(reflect.MakeSlice(gt, 0, 2), pair(1)), pair(2))
		return []reflect.Value{empty, one, two}
	case refcol.String:
		strs := []string{"", "a", strings.Repeat("s", 127), strings.Repeat("t", 128)}
		var out []reflect.Value
		for _, s := range strs {
			if gt.Kind() == reflect.String {
				out = append(out, reflect.ValueOf(s).Convert(gt))
			} else {
				out = append(out, reflect.ValueOf([]byte(s)).Convert(gt))
			}
		}
		return out
	case refcol.Tuple: // Point
		return []reflect.Value{
			mk(gt, func(v reflect.Value) {}),
			mk(gt, func(v reflect.Value) { v.Field(0).SetFloat(1.5); v.Field(1).SetFloat(-2.5) }),
			mk(gt, func(v reflect.Value) { v.Field(0).SetFloat(math.Inf(1)); v.Field(1).SetFloat(math.Copysign(0, -1)) }),
		}
	}
	// fixed-width scalars
	switch {
	case gt == timeType:
		return timeAlphabet(t)
	case gt.Kind() == reflect.String: // ColEnum
		var out []reflect.Value
		for _, n := range enumNames(t) {
			out = append(out, reflect.ValueOf(n))
		}
		return out
	case gt.Kind() == reflect.Bool:
		return []reflect.Value{reflect.ValueOf(false), reflect.ValueOf(true)}
	case gt.Kind() >= reflect.Int && gt.Kind() <= reflect.Int64:
		bits := gt.Bits()
		vals := []int64{0, 1, -1, math.MinInt64 >> (64 - bits), math.MaxInt64 >> (64 - bits)}
		var out []reflect.Value
		for _, x := range vals {
			out = append(out, mk(gt, func(v reflect.Value) { v.SetInt(x) }))
		}
		return out
	case gt.Kind() >= reflect.Uint && gt.Kind() <= reflect.Uint64:
		bits := gt.Bits()
		vals := []uint64{0, 1, math.MaxUint64 >> (64 - bits), 1 << (bits - 1)}
		var out []reflect.Value
		for _, x := range vals {
			out = append(out, mk(gt, func(v reflect.Value) { v.SetUint(x) }))
		}
		return out
	case gt.Kind() == reflect.Float32 || gt.Kind() == reflect.Float64:
		vals := []float64{1.5, math.NaN(), math.Inf(-1), math.Copysign(0, -1), math.SmallestNonzeroFloat32}
		var out []reflect.Value
		for _, x := range vals {
			out = append(out, mk(gt, func(v reflect.Value) { v.SetFloat(x) }))
		}
		return out
	case gt.Kind() == reflect.Array: // [N]byte: UUID, IPv6, FixedStringN
		n := gt.Len()
		mkArr := func(f func(i int) byte) reflect.Value {
			return mk(gt, func(v reflect.Value) {
				for i := 0; i < n; i++ {
					v.Index(i).SetUint(uint64(f(i)))
				}
			})
		}
		return []reflect.Value{mkArr(func(i int) byte { return 0 }), mkArr(func(i int) byte { return byte(i + 1) }), mkArr(func(i int) byte { return 0xff })}
	case gt.Kind() == reflect.Slice: // FixedString(N) through []byte
		n := t.Width
		mkS := func(f func(i int) byte) reflect.Value {
			b := make([]byte, n)
			for i := range b {
				b[i] = f(i)
			}
			return reflect.ValueOf(b)
		}
		return []reflect.Value{mkS(func(i int) byte { return byte('a' + i) }), mkS(func(i int) byte { return 0 }), mkS(func(i int) byte { return 0xff - byte(i) })}
	case gt.Kind() == reflect.Struct:
		if gt.NumField() == 0 { // Nothing
			return []reflect.Value{reflect.New(gt).Elem()}
		}
		if gt.Name() == "Interval" {
			scale, _ := proto.IntervalScaleString(t.Base)
			var out []reflect.Value
			for _, x := range []int64{0, -1, math.MaxInt64} {
				out = append(out, mk(gt, func(v reflect.Value) { v.Field(0).SetUint(uint64(scale)); v.Field(1).SetInt(x) }))
			}
			return out
		}
		// wide integers: structs of uint64 words (possibly nested)
		fill := func(f func(word int) uint64) reflect.Value {
			w := 0
			var set func(v reflect.Value)
			set = func(v reflect.Value) {
				for i := 0; i < v.NumField(); i++ {
					if v.Field(i).Kind() == reflect.Struct {
						set(v.Field(i))
					} else {
						v.Field(i).SetUint(f(w))
						w++
					}
				}
			}
			return mk(gt, set)
		}
		return []reflect.Value{
			fill(func(int) uint64 { return 0 }),
			fill(func(w int) uint64 { return uint64(w + 1) }),
			fill(func(int) uint64 { return math.MaxUint64 }),
			fill(func(w int) uint64 {
				if w == t.Width/8-1 {
					return 1 << 63
				}
				return 0
			}),
		}
	}
	panic(fmt.Sprintf("reg: no alphabet for Go type %v under %s", gt, t.Name))
}

func civil(y int, m time.Month, d int) time.Time { return time.Date(y, m, d, 0, 0, 0, 0, time.UTC) }

func timeAlphabet(t *refcol.Type) []reflect.Value {
	var ts []time.Time
	switch t.Base {
	case "Date":
		ts = []time.Time{civil(1970, 1, 1), civil(2000, 2, 29).Add(13 * time.Hour), civil(2149, 6, 6)}
	case "Date32":
		ts = []time.Time{civil(1900, 1, 1), civil(1969, 12, 31).Add(13 * time.Hour), civil(2299, 12, 31)}
	case "DateTime":
		ts = []time.Time{time.Unix(0, 0), time.Unix(1700000000, 0), time.Unix(math.MaxUint32, 0)}
	case "DateTime64":
		p, _ := strconv.Atoi(strings.TrimSpace(t.Args[0]))
		tick := int64(1)
		for i := 9; i > p; i-- {
			tick *= 10
		}
		far := civil(2290, 1, 1)
		if p == 9 {
			far = civil(2262, 1, 1)
		}
		ts = []time.Time{time.Unix(0, 0), time.Unix(-1, 1e9-tick), far.Add(time.Duration(tick)), civil(1900, 1, 1)}
	default:
		panic("reg: time.Time under " + t.Name)
	}
	var out []reflect.Value
	for _, x := range ts {
		out = append(out, reflect.ValueOf(x))
	}
	return out
}

// ---- canonical form ----

func floorDiv(a, b int64) int64 {
	q := a / b
	if a%b != 0 && (a < 0) != (b < 0) {
		q--
	}
	return q
}

func canon(t *refcol.Type, v reflect.Value) any {
	switch t.Kind {
	case refcol.LowCard:
		return canon(t.Elems[0], v)
	case refcol.Nullable:
		if !v.Field(0).Bool() {
			return nil
		}
		return canon(t.Elems[0], v.Field(1))
	case refcol.Array:
		out := make([]any, v.Len())
		for i := range out {
			out[i] = canon(t.Elems[0], v.Index(i))
		}
		return out
	case refcol.Map:
		if v.Kind() == reflect.Map {
			out := make([]refcol.KV, 0, v.Len())
			it := v.MapRange()
			for it.Next() {
				out = append(out, refcol.KV{K: canon(t.Elems[0], it.Key()), V: canon(t.Elems[1], it.Value())})
			}
			if len(out) > 1 {
				panic("reg: nested Go map with more than one pair has no defined order")
			}
			return out
		}
		out := make([]refcol.KV, v.Len())
		for i := range out {
			kv := v.Index(i)
			out[i] = refcol.KV{K: canon(t.Elems[0], kv.Field(0)), V: canon(t.Elems[1], kv.Field(1))}
		}
		return out
	case refcol.String:
		if v.Kind() == reflect.String {
			return []byte(v.String())
		}
		return append([]byte{}, v.Bytes()...)
	case refcol.Tuple: // Point
		tp := make(refcol.Tup, v.NumField())
		for i := range tp {
			tp[i] = canon(t.Elems[i], v.Field(i))
		}
		return tp
	}
	gt := v.Type()
	switch {
	case gt == timeType:
		tm := v.Interface().(time.Time)
		_, off := tm.Zone()
		switch t.Base {
		case "Date":
			return le(2, uint64(floorDiv(tm.Unix()+int64(off), 86400)), false)
		case "Date32":
			d := floorDiv(tm.Unix()+int64(off), 86400)
			return le(4, uint64(d), d < 0)
		case "DateTime":
			return le(4, uint64(tm.Unix()), false)
		case "DateTime64":
			p, _ := strconv.Atoi(strings.TrimSpace(t.Args[0]))
			perSec := int64(1)
			for i := 0; i < p; i++ {
				perSec *= 10
			}
			ticks := tm.Unix()*perSec + int64(tm.Nanosecond())/(1e9/perSec)
			return le(8, uint64(ticks), ticks < 0)
		}
	case gt.Kind() == reflect.String:
		x, ok := enumValue(t, v.String())
		if !ok {
			panic("reg: enum name " + v.String() + " not in " + t.Name)
		}
		return le(t.Width, uint64(int64(x)), x < 0)
	case gt.Kind() == reflect.Bool:
		if v.Bool() {
			return []byte{1}
		}
		return []byte{0}
	case gt.Kind() >= reflect.Int && gt.Kind() <= reflect.Int64:
		return le(t.Width, uint64(v.Int()), v.Int() < 0)
	case gt.Kind() >= reflect.Uint && gt.Kind() <= reflect.Uint64:
		return le(t.Width, v.Uint(), false)
	case gt.Kind() == reflect.Float32:
		return le(4, uint64(math.Float32bits(float32(v.Float()))), false)
	case gt.Kind() == reflect.Float64:
		return le(8, math.Float64bits(v.Float()), false)
	case gt.Kind() == reflect.Array:
		b := make([]byte, gt.Len())
		for i := range b {
			b[i] = byte(v.Index(i).Uint())
		}
		if t.Base == "UUID" {
			// two little-endian 64-bit halves
			out := make([]byte, 16)
			for i := 0; i < 8; i++ {
				out[i] = b[7-i]
				out[8+i] = b[15-i]
			}
			return out
		}
		return b
	case gt.Kind() == reflect.Slice:
		return append([]byte{}, v.Bytes()...)
	case gt.Kind() == reflect.Struct:
		if gt.NumField() == 0 {
			return []byte{0}
		}
		if gt.Name() == "Interval" {
			return le(8, uint64(v.Field(1).Int()), v.Field(1).Int() < 0)
		}
		var out []byte
		var walk func(v reflect.Value)
		walk = func(v reflect.Value) {
			for i := 0; i < v.NumField(); i++ {
				if v.Field(i).Kind() == reflect.Struct {
					walk(v.Field(i))
				} else {
					out = binary.LittleEndian.AppendUint64(out, v.Field(i).Uint())
				}
			}
		}
		walk(v)
		return out
	}
	panic(fmt.Sprintf("reg: no canonical form for %v under %s", gt, t.Name))
}
