package seq

import (
	"bytes"
	"encoding/binary"
	"fmt"
	"runtime"
	"runtime/debug"
	"strings"
	"time"

	"github.com/ClickHouse/ch-go/proto"

	"verif/checks/seq/reg"
	"verif/refcol"
	"verif/refwire"
	"verif/vk"
)

// outerKind is the outermost constructor of a type label (violation keys are structural).
func outerKind(label string) string {
	if i := strings.IndexByte(label, '('); i > 0 {
		return label[:i]
	}
	return label
}

// c06Decode decodes a (possibly hostile) block into a fresh typed column and, on success,
// exercises every row accessor; kind is "" when everything is consistent.
func c06Decode(e reg.Entry, b []byte, rev int, auto bool) (kind, detail string) {
	var col proto.Column
	var blk proto.Block
	var err error
	if auto {
		var res proto.Results
		err = blk.DecodeBlock(proto.NewReader(bytes.NewReader(b)), rev, res.Auto())
		if err != nil {
			return "", ""
		}
		for _, r := range res {
			if r.Data.Rows() != blk.Rows {
				return "inconsistent-rows/auto", fmt.Sprintf("block says %d rows, inferred column %q (%s) reports %d", blk.Rows, r.Name, r.Data.Type(), r.Data.Rows())
			}
			if c, ok := r.Data.(proto.Column); ok && hasRow(c) {
				if w, werr := reg.Wrap(c, e.Label); werr == nil {
					for i := 0; i < c.Rows(); i++ {
						w.Row(i)
					}
				}
			}
		}
		return "", ""
	}
	col = e.New()
	err = blk.DecodeBlock(proto.NewReader(bytes.NewReader(b)), rev, proto.Results{{Name: "col", Data: col}})
	if err != nil {
		return "", ""
	}
	if blk.Columns == 0 {
		return "", "" // an end-of-data block: nothing was bound
	}
	if col.Rows() != blk.Rows {
		return "inconsistent-rows/typed", fmt.Sprintf("block says %d rows, column reports %d", blk.Rows, col.Rows())
	}
	w, werr := reg.Wrap(col, e.Label)
	if werr != nil {
		return "", ""
	}
	for i := 0; i < col.Rows(); i++ {
		w.Row(i)
	}
	return "", ""
}

// c06Huge: lengths, counts and offsets a hostile peer may claim: the varint and fixed-width
// boundaries, and the neighbourhoods of the signed limits, where "position + length"
// computed in int wraps around (2^63-1-k overflows as soon as k bytes are already held).
var c06Huge = []uint64{0, 1, 127, 128, 255, 256, 65535, 65536, 1<<31 - 1, 1 << 31, 1<<32 - 1, 1 << 32, 1 << 40, 1 << 62,
	1<<63 - 256, 1<<63 - 16, 1<<63 - 8, 1<<63 - 4, 1<<63 - 3, 1<<63 - 2, 1<<63 - 1, 1 << 63, 1<<63 + 1, ^uint64(0) - 1, ^uint64(0)}

func uvar(v uint64) []byte { return binary.AppendUvarint(nil, v) }

// C06 — hostile or corrupted input yields an error, never a crash or bad column.
func C06(c *vk.Ctx) {
	c.Rule("corpus = one valid block per registry composition (rows built from the boundary alphabet; for LowCardinality compositions also the same block as a server may write it, with 16- and 64-bit keys) at revision 54460 and the C17 messages; mutations: (a) every byte offset x {8 bit flips, 00, FF}; (b) at every byte offset an 8-byte little-endian field overwritten with each of {0, 1, 127, 128, 255, 256, 65535, 65536, 2^31-1, 2^31, 2^32-1, 2^32, 2^40, 2^62, 2^63-256, 2^63-16, 2^63-8, 2^63-4, 2^63-3, 2^63-2, 2^63-1, 2^63, 2^63+1, 2^64-2, 2^64-1} (offsets, dictionary sizes, key counts, LowCardinality meta) and the byte replaced by the varint encoding of the same values (row / column counts, string lengths); (c) splices: prefix of one block + suffix of another block of the same column at every offset; (d) well-formed blocks of another shape than the one-column target (two columns with rows and as zero-row headers, in both orders; no columns at all, with and without a row count); (e) block headers whose column type is a parameterised family with ANY character string of length <= 4 over {' a = 1 , space - ( )} as parameter list, with 0 rows and with 1 claimed row, through Auto and into an inferring enum target; (e2) 14 parameterised type shapes (FixedString, DateTime64, Decimal, enums, and wrappers of FixedString) x 16 numeric parameters from 255 to beyond 2^64 and negative, in blocks claiming 0 / 1 / 2 / 4 rows, through Auto; likewise 28 type strings that name a parameterised family without its parameter list, bare and nested. Each mutant is decoded through the typed target and through Auto in a worker with a 3 GiB address-space limit and the block row cap lowered to 65536; oracle: returns (watchdog 30 s), no panic, process survives, and on success every column reports the block's row count and Row(i) works for all i. distinct_nontrivial = mutants evaluated (each is a distinct byte string by construction).")
	c.Watchdog(30*time.Second, "C06/does-not-terminate")
	rev := 54460
	quick := c.Quick()
	hyg := 0
	eval := func(e reg.Entry, id string, b []byte, group string) {
		if c.Resuming(id) {
			return
		}
		if c.Only != "" && c.Only != id {
			return
		}
		c.Current(id)
		c.Checkpoint()
		for _, auto := range []bool{false, true} {
			var kind, detail string
			msg, fn := vk.Recover(func() { kind, detail = c06Decode(e, b, rev, auto) })
			dec := "typed"
			if auto {
				dec = "auto"
			}
			if msg != "" {
				if len(msg) > 300 {
					msg = msg[:300]
				}
				c.Violation("C06/panic/"+fn+"/"+outerKind(e.Label), id+"/"+dec, fmt.Sprintf("%s decode of %s panics: %s", dec, vk.Hex(b), msg), nil)
			} else if kind != "" {
				c.Violation("C06/"+kind+"/"+outerKind(e.Label), id+"/"+dec, detail, nil)
			}
		}
		c.Eval(group, 2)
		c.DistinctN(2)
		// Mutants with large (capped) row counts leave hundreds of MiB of garbage behind;
		// give it back so that the address-space limit measures the case at hand and not
		// the worker's history.
		if hyg++; hyg%256 == 0 {
			var ms runtime.MemStats
			runtime.ReadMemStats(&ms)
			if ms.HeapSys-ms.HeapReleased > 512<<20 {
				debug.FreeOSMemory()
			}
		}
	}
	sel := int64(0)
	for ei, e := range regEntries(c) {
		if quick && e.Depth == 2 && ei%11 != 0 {
			continue // quick: every eleventh composition of depth 2
		}
		sel++
		if c.Only == "" && !c.Mine(sel) {
			continue
		}
		probe, err := reg.Wrap(e.New(), e.Label)
		if err != nil {
			continue
		}
		na := len(probe.Alphabet())
		mkBlock := func(idx []int) []byte {
			col, _, _, err := build(e, idx)
			if err != nil {
				return nil
			}
			var b []byte
			if msg, _ := vk.Recover(func() { b, err = encodeBlock1(col.C, "col", rev, nil) }); msg != "" || err != nil {
				return nil
			}
			return b
		}
		full := mkBlock([]int{0, 1 % na, 2 % na})
		other := mkBlock([]int{2 % na, 1 % na})
		if full == nil {
			continue
		}
		corpus := []struct {
			tag  string
			b, o []byte
		}{{"", full, other}}
		if strings.Contains(e.Label, "LowCardinality") && !noRef(e.Label) {
			// the same block as a server may write it: keys wider than the library would choose
			if _, _, want, err := build(e, []int{0, 1 % na, 2 % na}); err == nil {
				for _, kw := range []int{1, 3} {
					if quick && kw == 1 {
						continue
					}
					refcol.LCKeyWidth = kw
					var w refwire.W
					refcol.EncodeBlockBody(&w, rev, refwire.BlockInfo{BucketNum: -1}, len(want), []refcol.BlockCol{{Name: "col", Type: probe.T, Vals: want}})
					refcol.LCKeyWidth = -1
					corpus = append(corpus, struct {
						tag  string
						b, o []byte
					}{fmt.Sprintf("/keys%d", 8<<kw), w.B, nil})
				}
			}
		}
		// (d) well-formed blocks of another shape than the one-column target: more / fewer
		// columns than targets, with rows and as zero-row header blocks; a block that claims
		// rows without carrying columns
		if !noRef(e.Label) {
			if _, _, want, err := build(e, []int{0, 1 % na, 2 % na}); err == nil {
				u8 := refcol.MustParse("UInt8")
				shapes := []struct {
					name string
					rows int
					cols []refcol.BlockCol
				}{
					{"two-columns", 3, []refcol.BlockCol{{Name: "col", Type: probe.T, Vals: want}, {Name: "x", Type: u8, Vals: []any{[]byte{1}, []byte{2}, []byte{3}}}}},
					{"two-columns-header", 0, []refcol.BlockCol{{Name: "col", Type: probe.T}, {Name: "x", Type: u8}}},
					{"extra-first-header", 0, []refcol.BlockCol{{Name: "x", Type: u8}, {Name: "col", Type: probe.T}}},
					{"no-columns-three-rows", 3, nil},
					{"no-columns-header", 0, nil},
					{"one-column-header", 0, []refcol.BlockCol{{Name: "col", Type: probe.T}}},
				}
				for _, sh := range shapes {
					var w refwire.W
					refcol.EncodeBlockBody(&w, rev, refwire.BlockInfo{BucketNum: -1}, sh.rows, sh.cols)
					eval(e, e.Label+"/shape/"+sh.name, w.B, "other block shapes")
				}
			}
		}
		for _, item := range corpus {
			full, other, tag := item.b, item.o, item.tag
			if tag != "" {
				// the unmutated alternative encoding must decode
				eval(e, e.Label+tag+"/valid", full, "alternative valid encodings")
			}
			// the mutation-free encoding must decode (otherwise the corpus item is useless)
			for off := 0; off < len(full); off++ {
				// (a) single byte
				for bit := 0; bit < 10; bit++ {
					v := full[off] ^ (1 << (bit % 8))
					if bit == 8 {
						v = 0
					} else if bit == 9 {
						v = 0xff
					}
					if v == full[off] {
						continue
					}
					m := append([]byte{}, full...)
					m[off] = v
					eval(e, fmt.Sprintf("%s/byte/off=%d/val=%#x", e.Label+tag, off, v), m, "single-byte")
				}
				// (b) field values
				for hi, hv := range c06Huge {
					if quick && hi%2 == 1 && hv < 1<<40 {
						continue
					}
					if off+8 <= len(full) {
						m := append([]byte{}, full...)
						binary.LittleEndian.PutUint64(m[off:], hv)
						eval(e, fmt.Sprintf("%s/u64/off=%d/val=%d", e.Label+tag, off, hv), m, "u64-field")
					}
					m := append(append(append([]byte{}, full[:off]...), uvar(hv)...), full[off+1:]...)
					eval(e, fmt.Sprintf("%s/varint/off=%d/val=%d", e.Label+tag, off, hv), m, "varint-field")
				}
				// (c) splice
				if other != nil && off < len(other) {
					m := append(append([]byte{}, full[:off]...), other[off:]...)
					eval(e, fmt.Sprintf("%s/splice/off=%d", e.Label+tag, off), m, "splice")
				}
			}
		}
	}
	// (e) hostile type strings in the block header: ALL character strings of length <= 4 over
	// {' a = 1 , space - ( )} as the parameter list of every parameterised family, in a header
	// block (0 rows) and in a block claiming one row of 16 zero bytes; through Auto and into an
	// inferring enum target
	{
		chars := []byte("'a=1, -()")
		fams := []string{"Enum8", "Enum16", "DateTime", "DateTime64", "Decimal", "FixedString", "Map", "Tuple", "Array", "Nullable", "LowCardinality", "Nested"}
		var n int64
		var rec func(pre []byte)
		rec = func(pre []byte) {
			mine := c.Only == "" && c.Mine(n)
			n++
			for _, f := range fams {
				ts := f + "(" + string(pre) + ")"
				for _, rows := range []int{0, 1} {
					id := fmt.Sprintf("header-type/%s/rows=%d", ts, rows)
					if !(mine || c.Only == id) || c.Resuming(id) {
						continue
					}
					var w refwire.W
					w.UVarint(1) // block info: field 1 (overflows)
					w.Byte(0)
					w.UVarint(2)
					w.I32(-1)
					w.UVarint(0)
					w.UVarint(1)            // columns
					w.UVarint(uint64(rows)) // rows
					w.Str("col")
					w.Str(ts)
					w.Byte(0) // no custom serialization
					if rows > 0 {
						w.Raw(make([]byte, 16))
					}
					c.Current(id)
					c.Checkpoint()
					for _, auto := range []bool{false, true} {
						msg, fn := vk.Recover(func() {
							var blk proto.Block
							if auto {
								var res proto.Results
								_ = blk.DecodeBlock(proto.NewReader(bytes.NewReader(w.B)), rev, res.Auto())
							} else {
								_ = blk.DecodeBlock(proto.NewReader(bytes.NewReader(w.B)), rev, proto.Results{{Name: "col", Data: new(proto.ColEnum)}})
							}
						})
						if msg != "" {
							if len(msg) > 300 {
								msg = msg[:300]
							}
							c.Violation("C06/panic/"+fn+"/header-type", id, fmt.Sprintf("block header with column type %q panics: %s", ts, msg), nil)
						}
					}
					c.Eval("hostile header types", 2)
					c.DistinctN(2)
				}
			}
			if len(pre) == 4 {
				return
			}
			for _, ch := range chars {
				rec(append(pre, ch))
			}
		}
		rec(nil)
	}
	// (e2) huge numeric parameters in header types: a size, precision or member value taken from
	// the type string must never drive an allocation or an index. Blocks claiming 0 / 1 / 2 / 4
	// rows followed by 64 zero bytes, through Auto; a decode that succeeds must report the
	// block's row count and every row must be readable
	{
		nums := []string{"255", "256", "513", "65536", "2147483647", "2147483648", "4294967296", "1099511627776", "4611686018427387904", "9223372036854775807", "9223372036854775808",
			"18446744073709551615", "18446744073709551616", "99999999999999999999999", "-1", "-9223372036854775808"}
		shapes := []string{"FixedString(%s)", "DateTime64(%s)", "Decimal(%s, 2)", "Decimal(9, %s)", "Decimal32(%s)", "Enum8('a' = %s)", "Enum16('a' = %s)", "Array(FixedString(%s))", "Nullable(FixedString(%s))",
			"LowCardinality(FixedString(%s))", "Map(String, FixedString(%s))", "Tuple(FixedString(%s), UInt8)", "Array(Array(FixedString(%s)))", "DateTime64(%s, 'UTC')"}
		// and the parameterised families with no parameter list at all, bare and nested
		bare := []string{"DateTime64", "DateTime", "Decimal", "FixedString", "Enum8", "Enum16", "Array", "Map", "Nullable", "LowCardinality", "Tuple", "Nested", "Interval", "Decimal32", "Decimal256",
			"Array(DateTime64)", "Nullable(DateTime64)", "LowCardinality(DateTime64)", "Array(Decimal)", "Array(FixedString)", "Array(Enum8)", "Map(String, DateTime64)", "Map(DateTime64, String)",
			"Tuple(DateTime64, UInt8)", "DateTime64()", "Array(DateTime64())", "Array(Array(DateTime64))", "Nullable(Enum16)"}
		shapes = append(shapes, bare...)
		var n int64
		for _, sh := range shapes {
			for ni, num := range nums {
				ts := sh
				if strings.Contains(sh, "%s") {
					ts = fmt.Sprintf(sh, num)
				} else if ni > 0 {
					break
				}
				for _, rows := range []int{0, 1, 2, 4} {
					n++
					id := fmt.Sprintf("header-param/%s/rows=%d", ts, rows)
					if !((c.Only == "" && c.Mine(n)) || c.Only == id) || c.Resuming(id) {
						continue
					}
					var w refwire.W
					w.UVarint(1)
					w.Byte(0)
					w.UVarint(2)
					w.I32(-1)
					w.UVarint(0)
					w.UVarint(1)
					w.UVarint(uint64(rows))
					w.Str("col")
					w.Str(ts)
					w.Byte(0)
					if rows > 0 {
						w.Raw(make([]byte, 64))
					}
					c.Current(id)
					c.Checkpoint()
					msg, fn := vk.Recover(func() {
						var blk proto.Block
						var res proto.Results
						if err := blk.DecodeBlock(proto.NewReader(bytes.NewReader(w.B)), rev, res.Auto()); err != nil || rows == 0 {
							return
						}
						if len(res) != 1 || res[0].Data.Rows() != rows {
							got := -1
							if len(res) == 1 {
								got = res[0].Data.Rows()
							}
							c.Violation("C06/inconsistent-column/header-param", id, fmt.Sprintf("a block of %d rows with column type %q decodes without error into a column of %d rows", rows, ts, got), nil)
							return
						}
						if col, ok := unwrapAuto(res[0].Data); ok && hasRow(col) {
							if wcol, err := reg.Wrap(col, ts); err == nil {
								for i := 0; i < col.Rows(); i++ {
									wcol.Row(i)
								}
							}
						}
					})
					if msg != "" {
						if len(msg) > 300 {
							msg = msg[:300]
						}
						c.Violation("C06/panic/"+fn+"/header-param", id, fmt.Sprintf("block header with column type %q (%d rows) panics: %s", ts, rows, msg), nil)
					}
					c.Eval("hostile header types", 1)
					c.DistinctN(1)
				}
			}
		}
	}
	// protocol messages: every single-byte mutation and huge varints must not panic
	for mi, m := range c17Messages() {
		if c.Only == "" && !c.Mine(int64(mi)) {
			continue
		}
		base := make([]int, m.fields)
		for _, mrev := range []int{54460, 54429} {
			lib, _, dec, _ := m.build(base, mrev)
			enc := lib()
			for off := 0; off < len(enc); off++ {
				var muts [][]byte
				for bit := 0; bit < 8; bit++ {
					x := append([]byte{}, enc...)
					x[off] ^= 1 << bit
					muts = append(muts, x)
				}
				for _, hv := range c06Huge {
					muts = append(muts, append(append(append([]byte{}, enc[:off]...), uvar(hv)...), enc[off+1:]...))
				}
				for k, x := range muts {
					id := fmt.Sprintf("msg/%s/rev=%d/off=%d/m=%d", m.name, mrev, off, k)
					if c.Resuming(id) || (c.Only != "" && c.Only != id) {
						continue
					}
					c.Current(id)
					if len(x) == 0 {
						continue
					}
					msg, fn := vk.Recover(func() { dec(x) })
					if msg != "" {
						c.Violation("C06/panic/"+fn+"/message-"+m.name, id, fmt.Sprintf("decoding %s panics: %s", vk.Hex(x), msg), nil)
					}
					c.Eval("messages", 1)
					c.DistinctN(1)
				}
			}
		}
	}
	c.Current("")
	c.Sample(map[string]any{"corpus_item": "block with one column Array(String) = [[], [\"a\"], [\"\", s*127, t*128]]", "mutant": "8-byte field at the offset of the second array offset set to 0 (non-monotonic offsets)", "oracle": "error, or success with Rows()==3 and Row(0..2) not panicking"})
}
