package seq

import (
	"bytes"
	"fmt"
	"io"

	"github.com/ClickHouse/ch-go/proto"

	"verif/checks/seq/reg"
	"verif/checks/seq/regtab"
	"verif/refcol"
	"verif/refwire"
	"verif/vk"
)

// chunkReader delivers its data in pieces of the given sizes (cycled).
type chunkReader struct {
	b     []byte
	sizes []int
	i     int
}

func (r *chunkReader) Read(p []byte) (int, error) {
	if len(r.b) == 0 {
		return 0, io.EOF
	}
	n := r.sizes[r.i%len(r.sizes)]
	r.i++
	if n > len(p) {
		n = len(p)
	}
	if n > len(r.b) {
		n = len(r.b)
	}
	copy(p, r.b[:n])
	r.b = r.b[n:]
	return n, nil
}

// C08Reader is the proto.Reader-level half of C08: every corpus block decoded from a
// transport that hands out 1, 2, 3, 7 bytes at a time or growing pieces must give the same
// column as a single read, plain and inside compression frames.
func C08Reader(c *vk.Ctx) {
	c.Rule("reader level: every registry composition x value sequences of length <= 1 (depth <= 1: length <= 2) encoded as a block, plain and as one / two LZ4 frames, decoded through proto.Reader from transports returning 1, 2, 3, 7 bytes per read and pieces of growing size; oracle: no error and the decoded column equals the appended values.")
	rev := 54460
	chunkings := [][]int{{1}, {2}, {3}, {7}, {1, 2, 3, 5, 8, 13, 21}}
	for ei, e := range regtab.Generated {
		if c.Only == "" && !c.Mine(int64(ei)) {
			continue
		}
		probe, err := reg.Wrap(e.New(), e.Label)
		if err != nil {
			continue
		}
		na := len(probe.Alphabet())
		L := 1
		if e.Depth <= 1 {
			L = 2
		}
		for _, idx := range seqsOver(na, L) {
			if len(idx) == 0 {
				continue
			}
			col, _, want, err := build(e, idx)
			if err != nil {
				continue
			}
			var full []byte
			if msg, _ := vk.Recover(func() { full, err = encodeBlock1(col.C, "col", rev, nil) }); msg != "" || err != nil {
				continue
			}
			streams := map[string][]byte{"plain": full, "lz4-1": refwire.Compress(refwire.MethodLZ4, full)}
			if len(full) > 8 {
				h := len(full) / 2
				streams["lz4-2"] = append(refwire.Compress(refwire.MethodLZ4, full[:h]), refwire.Compress(refwire.MethodLZ4, full[h:])...)
			}
			for _, variant := range vk.SortedKeys(streams) {
				for ci, sizes := range chunkings {
					id := fmt.Sprintf("reader/%s/%v/%s/chunks=%d", e.Label, idx, variant, ci)
					if c.Only != "" && c.Only != id {
						continue
					}
					c.Current(id)
					msg, fn := vk.Recover(func() {
						fresh, _ := reg.Wrap(e.New(), e.Label)
						rd := proto.NewReader(&chunkReader{b: append([]byte{}, streams[variant]...), sizes: sizes})
						if variant != "plain" {
							rd.EnableCompression()
						}
						var blk proto.Block
						if err := blk.DecodeBlock(rd, rev, proto.Results{{Name: "col", Data: fresh.C}}); err != nil {
							c.Violation("C08/reader/segmented-decode-fails/"+variant, id, err.Error(), nil)
							return
						}
						if got := rowsCanon(fresh); !refcol.Equal(anyList(got), anyList(want)) {
							c.Violation("C08/reader/segmented-decode-differs/"+variant, id, fmt.Sprintf("decoded %s, block holds %s", refcol.Show(anyList(got)), refcol.Show(anyList(want))), nil)
						}
					})
					if msg != "" {
						c.Violation("C08/reader/panic/"+fn, id, msg, nil)
					}
					c.Eval("reader-level segmentations", 1)
					c.DistinctN(1)
				}
			}
		}
	}
}

var _ = bytes.Equal
