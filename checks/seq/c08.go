package seq

import (
	"bytes"
	"fmt"
	"io"

	"github.com/ClickHouse/ch-go/proto"

	"verif/checks/seq/reg"
	"verif/checks/seq/regtab"
	"verif/refcol"
	"verif/refwire"
	"verif/vk"
)

// chunkReader delivers its data in pieces of the given sizes (cycled).
type chunkReader struct {
	b     []byte
	sizes []int
	i     int
}

func (r *chunkReader) Read(p []byte) (int, error) {
	if len(r.b) == 0 {
		return 0, io.EOF
	}
	n := r.sizes[r.i%len(r.sizes)]
	r.i++
	if n > len(p) {
		n = len(p)
	}
	if n > len(r.b) {
		n = len(r.b)
	}
	copy(p, r.b[:n])
	r.b = r.b[n:]
	return n, nil
}

// C08Reader is the proto.Reader-level half of C08: every corpus block decoded from a
// transport that hands out 1, 2, 3, 7 bytes at a time or growing pieces must give the same
// column as a single read, plain and inside compression frames.
func C08Reader(c *vk.Ctx) {
	c.Rule("reader level: every registry composition x value sequences of length <= 1 (depth <= 1: length <= 2) encoded as a block, plain and as one / two LZ4 frames, decoded through proto.Reader from transports returning 1, 2, 3, 7 bytes per read and pieces of growing size; plus blocks holding a string of 1 MiB + 11 bytes (String, Array(String), LowCardinality(String); plain and as 1 MiB LZ4 frames) from transports returning 1, 7, 4095, 4096, 4097, 65536, 2^20, 2^20+1 bytes per read and a mixed cycle; oracle: no error and the decoded column equals the appended values.")
	rev := 54460
	chunkings := [][]int{{1}, {2}, {3}, {7}, {1, 2, 3, 5, 8, 13, 21}}
	for ei, e := range regtab.Generated {
		if c.Only == "" && !c.Mine(int64(ei)) {
			continue
		}
		probe, err := reg.Wrap(e.New(), e.Label)
		if err != nil {
			continue
		}
		na := len(probe.Alphabet())
		L := 1
		if e.Depth <= 1 {
			L = 2
		}
		for _, idx := range seqsOver(na, L) {
			if len(idx) == 0 {
				continue
			}
			col, _, want, err := build(e, idx)
			if err != nil {
				continue
			}
			var full []byte
			if msg, _ := vk.Recover(func() { full, err = encodeBlock1(col.C, "col", rev, nil) }); msg != "" || err != nil {
				continue
			}
			streams := map[string][]byte{"plain": full, "lz4-1": refwire.Compress(refwire.MethodLZ4, full)}
			if len(full) > 8 {
				h := len(full) / 2
				streams["lz4-2"] = append(refwire.Compress(refwire.MethodLZ4, full[:h]), refwire.Compress(refwire.MethodLZ4, full[h:])...)
			}
			for _, variant := range vk.SortedKeys(streams) {
				for ci, sizes := range chunkings {
					id := fmt.Sprintf("reader/%s/%v/%s/chunks=%d", e.Label, idx, variant, ci)
					if c.Only != "" && c.Only != id {
						continue
					}
					c.Current(id)
					msg, fn := vk.Recover(func() {
						fresh, _ := reg.Wrap(e.New(), e.Label)
						rd := proto.NewReader(&chunkReader{b: append([]byte{}, streams[variant]...), sizes: sizes})
						if variant != "plain" {
							rd.EnableCompression()
						}
						var blk proto.Block
						if err := blk.DecodeBlock(rd, rev, proto.Results{{Name: "col", Data: fresh.C}}); err != nil {
							c.Violation("C08/reader/segmented-decode-fails/"+variant, id, err.Error(), nil)
							return
						}
						if got := rowsCanon(fresh); !refcol.Equal(anyList(got), anyList(want)) {
							c.Violation("C08/reader/segmented-decode-differs/"+variant, id, fmt.Sprintf("decoded %s, block holds %s", refcol.Show(anyList(got)), refcol.Show(anyList(want))), nil)
						}
					})
					if msg != "" {
						c.Violation("C08/reader/panic/"+fn, id, msg, nil)
					}
					c.Eval("reader-level segmentations", 1)
					c.DistinctN(1)
				}
			}
		}
	}
	// large values: a string longer than the 1 MiB allocation step, in three carriers, from
	// transports whose piece sizes sit around the buffer size (4096) and the allocation step
	big := make([]byte, 1<<20+11)
	for i := range big {
		big[i] = byte('a' + i%23)
	}
	type lcase struct {
		typ  string
		vals []any
	}
	lcases := []lcase{
		{"String", []any{[]byte("s"), big, []byte("t")}},
		{"Array(String)", []any{[]any{[]byte("s"), big}, []any{}}},
		{"LowCardinality(String)", []any{[]byte("s"), big, []byte("s")}},
	}
	lchunks := [][]int{{1}, {7}, {4095}, {4096}, {4097}, {65536}, {1 << 20}, {1<<20 + 1}, {1, 4096, 3, 1 << 20, 5}}
	n := int64(0)
	for _, lc := range lcases {
		e, ok := regtab.ByLabel(lc.typ)
		if !ok {
			panic("C08: no registry entry " + lc.typ)
		}
		var w refwire.W
		refcol.EncodeBlockBody(&w, rev, refwire.BlockInfo{BucketNum: -1}, len(lc.vals), []refcol.BlockCol{{Name: "col", Type: refcol.MustParse(lc.typ), Vals: lc.vals}})
		plain := w.B
		var framed []byte
		for off := 0; off < len(plain); off += 1 << 20 {
			framed = append(framed, refwire.Compress(refwire.MethodLZ4, plain[off:min(off+1<<20, len(plain))])...)
		}
		for _, variant := range []string{"plain", "lz4"} {
			for ci, sizes := range lchunks {
				n++
				id := fmt.Sprintf("reader/large/%s/%s/chunks=%d", lc.typ, variant, ci)
				if c.Only != "" && c.Only != id {
					continue
				}
				if c.Only == "" && !c.Mine(n) {
					continue
				}
				c.Current(id)
				msg, fn := vk.Recover(func() {
					fresh, _ := reg.Wrap(e.New(), e.Label)
					src := plain
					if variant == "lz4" {
						src = framed
					}
					rd := proto.NewReader(&chunkReader{b: append([]byte{}, src...), sizes: sizes})
					if variant != "plain" {
						rd.EnableCompression()
					}
					var blk proto.Block
					if err := blk.DecodeBlock(rd, rev, proto.Results{{Name: "col", Data: fresh.C}}); err != nil {
						c.Violation("C08/reader/segmented-decode-fails/large-"+variant, id, err.Error(), nil)
						return
					}
					if got := rowsCanon(fresh); !refcol.Equal(anyList(got), anyList(lc.vals)) {
						c.Violation("C08/reader/segmented-decode-differs/large-"+variant, id, "a block with a string of 1 MiB + 11 bytes decodes to other values than it holds", nil)
					}
				})
				if msg != "" {
					c.Violation("C08/reader/panic/"+fn, id, msg, nil)
				}
				c.Eval("reader-level segmentations", 1)
				c.DistinctN(1)
			}
		}
	}
}

var _ = bytes.Equal
