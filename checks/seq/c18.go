package seq

import (
	"bytes"
	"fmt"
	"strings"

	"github.com/ClickHouse/ch-go/proto"

	"verif/checks/seq/reg"
	"verif/checks/seq/regtab"
	"verif/refcol"
	"verif/refwire"
	"verif/vk"
)

// kind18 is one column kind usable both as a block column (server side) and as a target.
type kind18 struct {
	label string
	mk    func() proto.Column
	// blockType: how a server spells this kind's type in a block header when that differs
	// from what the library's column reports (Decimal(P, S) for the fixed-width decimals)
	blockType string
}

func kinds18() []kind18 {
	var out []kind18
	for _, l := range []string{"UInt8", "Int8", "UInt64", "String", "Enum8('a'=1,'b'=2,'c'=-3)", "Enum8", "DateTime", "DateTime('UTC')", "DateTime64(3)", "DateTime64(6)",
		"Array(String)", "Map(String, String)", "LowCardinality(String)", "FixedString(3)", "FixedString(8)", "Nullable(String)", "Array(Enum8('a'=1,'b'=2,'c'=-3))", "Array(DateTime64(3))", "Array(DateTime64(9))",
		// containers of inferable elements next to containers whose type strings those elements' own
		// Infer tolerates (a numeric first parameter, no quoted parameter)
		"Array(DateTime)", "Array(UInt32)", "Array(FixedString(8))", "Map(String, DateTime64(3))", "Map(String, FixedString(8))"} {
		e, ok := regtab.ByLabel(l)
		if !ok {
			panic("C18: no registry entry " + l)
		}
		out = append(out, kind18{label: l, mk: e.New})
	}
	out = append(out, kind18{label: "Enum8('x'=5,'y'=6)", mk: func() proto.Column { return reg.Enum("Enum8('x' = 5, 'y' = 6)") }})
	// decimals: the library's own spellings and the server's, on both sides of the 64 / 128 bit boundary
	for _, d := range []struct{ label, col, block string }{
		{"Decimal64", "Decimal64", ""}, {"Decimal128", "Decimal128", ""},
		{"Decimal(18, 4)", "Decimal64", "Decimal(18, 4)"}, {"Decimal(19, 4)", "Decimal128", "Decimal(19, 4)"},
	} {
		e, ok := regtab.ByLabel(d.col)
		if !ok {
			panic("C18: no registry entry " + d.col)
		}
		out = append(out, kind18{label: d.label, mk: e.New, blockType: d.block})
	}
	return out
}

func nameBasedEnum(label string) bool {
	return strings.HasPrefix(label, "Enum8('") || strings.HasPrefix(label, "Array(Enum8('")
}

// compatRef is the reference compatibility predicate, written from the property text: same
// base type; enum <-> its underlying integer; enums, timestamps adopt the server's
// parameters; FixedString must have the same width; wrappers element-wise.
func compatRef(b, t *refcol.Type) bool {
	eb := func(x *refcol.Type, enum, integer string) bool { return x.Base == enum }
	switch {
	case eb(b, "Enum8", "") && t.Name == "Int8", eb(t, "Enum8", "") && b.Name == "Int8",
		eb(b, "Enum16", "") && t.Name == "Int16", eb(t, "Enum16", "") && b.Name == "Int16":
		return true
	}
	if strings.HasPrefix(b.Base, "Decimal") && strings.HasPrefix(t.Base, "Decimal") {
		// Decimal(P, S) and DecimalN are the same type when the precision selects that width
		return b.Width == t.Width
	}
	if b.Base != t.Base {
		return false
	}
	switch b.Base {
	case "Enum8", "Enum16", "DateTime", "DateTime64":
		return true
	case "FixedString":
		return b.Width == t.Width
	case "Array", "Nullable", "LowCardinality":
		return compatRef(b.Elems[0], t.Elems[0])
	case "Map":
		return compatRef(b.Elems[0], t.Elems[0]) && compatRef(b.Elems[1], t.Elems[1])
	case "Tuple":
		if len(b.Elems) != len(t.Elems) {
			return false
		}
		for i := range b.Elems {
			if !compatRef(b.Elems[i], t.Elems[i]) {
				return false
			}
		}
		return true
	}
	return true
}

// adopted18 compares the parameters that decide what the stored bytes mean (DateTime64
// precision, FixedString width, enum definitions of a name-based target) between the
// block's type and the type the target reports after an accepted decode.
func adopted18(b *refcol.Type, after proto.ColumnType) string {
	t, err := refcol.Parse(string(after))
	if err != nil {
		return ""
	}
	var walk func(b, t *refcol.Type) string
	walk = func(b, t *refcol.Type) string {
		if b.Base != t.Base {
			return "" // enum <-> integer: nothing to adopt
		}
		switch b.Base {
		case "DateTime64":
			if len(b.Args) > 0 && len(t.Args) > 0 && strings.TrimSpace(b.Args[0]) != strings.TrimSpace(t.Args[0]) {
				return fmt.Sprintf("precision %s kept although the block has precision %s", t.Args[0], b.Args[0])
			}
		case "Enum8", "Enum16":
			if len(t.Args) > 0 && len(b.Args) > 0 {
				norm := func(a []string) string {
					var o []string
					for _, x := range a {
						o = append(o, strings.ReplaceAll(x, " ", ""))
					}
					return strings.Join(o, ",")
				}
				if norm(t.Args) != norm(b.Args) {
					return "enum definition " + norm(t.Args) + " kept although the block defines " + norm(b.Args)
				}
			}
		}
		for i := range b.Elems {
			if i < len(t.Elems) {
				if s := walk(b.Elems[i], t.Elems[i]); s != "" {
					return s
				}
			}
		}
		return ""
	}
	return walk(b, t)
}

type col18 struct {
	name string
	kind int
	vals []any // canonical values (wire form) of the block column
}

// blockVals builds canonical values for a column of the given kind; the values depend on
// the column position so that data landing in the wrong target is visible.
func blockVals(k kind18, pos, rows int) (t *refcol.Type, vals []any) {
	src, err := reg.Wrap(k.mk(), k.label)
	if err != nil {
		panic(err)
	}
	alpha := src.Alphabet()
	for r := 0; r < rows; r++ {
		vals = append(vals, src.Canon(alpha[(pos+r+1)%len(alpha)]))
	}
	return src.T, vals
}

type target18 struct {
	name string
	kind int // -1: none
}

// C18 — result blocks bind only to compatible targets; mismatches are errors.
func C18(c *vk.Ctx) {
	c.Rule("block schemas of 0..2 columns (thorough 0..3) over 29 column kinds (Decimal64 / Decimal128 and the server's spellings Decimal(18, 4) / Decimal(19, 4) of them, integers, String, name-based Enum8 with two different definitions and raw Enum8, DateTime with / without zone, DateTime64(3)/(6), Array(String), Array(Enum8), Array(DateTime64(3))/(9), Array(DateTime), Array(UInt32), Array(FixedString(8)), Map(String,DateTime64(3)), Map(String,FixedString(8)), Map(String,String), LowCardinality(String), FixedString(3)/(8), Nullable(String)) x rows {0, 2} x target lists {equal kinds, every permutation, one renamed, one blank name, one extra, one missing, each position swapped for every other kind, Auto, none}; plus ordered pairs of blocks (second schema = first with one kind swapped — unrelated kinds and every parameter-only sibling — or one renamed) decoded into the same typed or inferred targets. Oracle: a reference compatibility predicate written from the property text decides accept / reject; on accept every target, read back as values of the BLOCK's type, holds exactly its own column's values, reports the block's precision / enum definition as adopted, and blank names are filled; on reject an error, and no target holds another column's data. distinct_nontrivial = (schema, targets, rows) cases.")
	kinds := kinds18()
	maxCols := 2
	if !c.Quick() {
		maxCols = 3
	}
	rev := 54460
	types := make([]*refcol.Type, len(kinds))
	for i, k := range kinds {
		w, err := reg.Wrap(k.mk(), k.label)
		if err != nil {
			panic(err)
		}
		types[i] = w.T
		if k.blockType != "" {
			types[i] = refcol.MustParse(k.blockType)
		}
	}
	encode := func(cols []col18, rows int) []byte {
		var bc []refcol.BlockCol
		for _, cl := range cols {
			bc = append(bc, refcol.BlockCol{Name: cl.name, Type: types[cl.kind], Vals: cl.vals})
		}
		var w refwire.W
		refcol.EncodeBlockBody(&w, rev, refwire.BlockInfo{BucketNum: -1}, rows, bc)
		return w.B
	}
	// check decodes block(s) into targets and applies the oracle.
	check := func(id string, blocks [][]col18, rows int, targets []target18, mode string) {
		if c.Only != "" && c.Only != id {
			return
		}
		c.Current(id)
		msg, fn := vk.Recover(func() {
			var res proto.Results
			var tcols []proto.Column
			for _, t := range targets {
				col := kinds[t.kind].mk()
				tcols = append(tcols, col)
				res = append(res, proto.ResultColumn{Name: t.name, Data: col})
			}
			var auto, cauto proto.Results
			names := make([]string, len(targets))
			for i, t := range targets {
				names[i] = t.name
			}
			rowsArg := rows
			for bi, cols := range blocks {
				rows := rowsArg
				if rowsArg < 0 {
					rows = 0
					if len(cols) > 0 {
						rows = len(cols[0].vals)
					}
				}
				var result proto.Result
				switch mode {
				case "typed":
					result = res
				case "auto":
					result = auto.Auto()
				case "none":
					result = nil
				case "colauto":
					if cauto == nil {
						for _, cl := range blocks[0] {
							cauto = append(cauto, proto.ResultColumn{Name: cl.name, Data: new(proto.ColAuto)})
						}
					}
					result = cauto
				}
				var blk proto.Block
				err := blk.DecodeBlock(proto.NewReader(bytes.NewReader(encode(cols, rows))), rev, result)
				// reference verdict
				accept := true
				unjudged := false
				why := ""
				endMarker := len(cols) == 0 && rows == 0 // a 0 x 0 block is the end-of-data marker: nothing to bind
				switch {
				case endMarker:
				default:
					switch mode {
					case "none":
						accept = rows == 0
						why = "rows without target"
					case "colauto": // judged below
					case "auto":
						if bi > 0 {
							// targets were created by the first block: same rules as typed from now on
							if len(cols) != len(auto) {
								accept, why = false, "column count"
							}
						}
					case "typed":
						if len(cols) != len(targets) && !(len(targets) == 0 && rows == 0) {
							accept, why = false, "column count"
						} else if len(targets) > 0 {
							for i, cl := range cols {
								if names[i] != "" && names[i] != cl.name {
									accept, why = false, fmt.Sprintf("name of column %d", i)
									break
								}
								if !compatRef(types[cl.kind], types[targets[i].kind]) || (nameBasedEnum(kinds[targets[i].kind].label) && !strings.Contains(kinds[cl.kind].label, "Enum8(")) {
									// a name-based enum target needs the server's definition: plain Int8 cannot fill it
									accept, why = false, fmt.Sprintf("type of column %d (%s into %s)", i, kinds[cl.kind].label, kinds[targets[i].kind].label)
									break
								}
							}
						}
					}
				}
				if mode == "auto" && bi == 0 && !endMarker {
					for _, cl := range cols {
						// inference is library-defined: Auto applies wherever ColAuto.Infer accepts the type
						if new(proto.ColAuto).Infer(proto.ColumnType(types[cl.kind].Name)) != nil {
							accept, why = false, "type not inferable"
						}
					}
				}
				desc := func() string {
					var s []string
					for _, cl := range cols {
						s = append(s, cl.name+" "+kinds[cl.kind].label)
					}
					var ts []string
					for i, t := range targets {
						ts = append(ts, names[i]+" "+kinds[t.kind].label)
					}
					return fmt.Sprintf("block %d [%s] x %d rows into %s targets [%s]", bi, strings.Join(s, ", "), rows, mode, strings.Join(ts, ", "))
				}
				if mode == "auto" && bi > 0 && accept && !endMarker {
					// later blocks against inferred targets: names and kinds must match the first block's
					for i, cl := range cols {
						if auto[i].Name != cl.name {
							accept, why = false, "name vs inferred"
						}
						if t, perr := refcol.Parse(string(auto[i].Data.Type())); perr == nil && !compatRef(types[cl.kind], t) {
							accept, why = false, "type vs inferred"
						}
					}
				}
				if mode == "colauto" && !endMarker {
					// explicit ColAuto targets re-infer for whatever type arrives. A type a fresh ColAuto
					// refuses need not be refused by a used one (a bad zone on a compatible column is
					// harmless), so only acceptance of inferable types is demanded; whatever is accepted
					// goes through the soundness checks below
					if len(cols) != len(cauto) {
						accept, why = false, "column count"
					} else {
						for i, cl := range cols {
							if cauto[i].Name != cl.name {
								accept, why = false, "name vs target"
							}
							if new(proto.ColAuto).Infer(proto.ColumnType(types[cl.kind].Name)) != nil {
								unjudged = true
							}
						}
					}
					if unjudged && accept {
						accept = err == nil
					}
				}
				if accept && err != nil {
					c.Violation("C18/compatible-block-rejected/"+mode, id, fmt.Sprintf("%s: %v", desc(), err), nil)
					return
				}
				if !accept && err == nil {
					c.Violation("C18/incompatible-block-accepted/"+mode+"/"+strings.Fields(why)[0], id, fmt.Sprintf("%s: decoded without error although the %s does not match", desc(), why), nil)
					return
				}
				if mode == "typed" {
					if accept && len(targets) > 0 {
						for i, cl := range cols {
							names[i] = cl.name // blank names are filled from the first block and enforced afterwards
							if res[i].Name != cl.name {
								c.Violation("C18/blank-name-not-filled", id, fmt.Sprintf("%s: target %d name is %q", desc(), i, res[i].Name), nil)
								return
							}
							// the rows are read back as values of the BLOCK's type: a target that kept its own
							// precision, zone-independent instant or enum definition shows up as different values
							w, werr := reg.WrapAs(tcols[i], types[cl.kind], kinds[targets[i].kind].label)
							if werr != nil {
								continue
							}
							if ad := adopted18(types[cl.kind], tcols[i].Type()); ad != "" {
								c.Violation("C18/parameters-not-adopted", id, fmt.Sprintf("%s: target %d reports type %s afterwards: %s", desc(), i, tcols[i].Type(), ad), nil)
								return
							}
							if got := rowsCanon(w); !refcol.Equal(anyList(got), anyList(cl.vals)) && !(len(got) == 0 && len(cl.vals) == 0) {
								c.Violation("C18/target-holds-wrong-values", id, fmt.Sprintf("%s: target %d holds %s, its column carries %s", desc(), i, refcol.Show(anyList(got)), refcol.Show(anyList(cl.vals))), nil)
								return
							}
						}
					}
					if !accept {
						// no target may hold another column's data
						for i := range tcols {
							w, werr := reg.Wrap(tcols[i], kinds[targets[i].kind].label)
							if werr != nil || tcols[i].Rows() == 0 {
								continue
							}
							var got []any
							if m, _ := vk.Recover(func() { got = rowsCanon(w) }); m != "" {
								continue
							}
							if bi > 0 && i < len(blocks[bi-1]) && refcol.Equal(anyList(got), anyList(blocks[bi-1][i].vals)) {
								continue // still what the previous, accepted block put there: nothing was received
							}
							for j, cl := range cols {
								if j != i && len(cl.vals) > 0 && refcol.Equal(anyList(got), anyList(cl.vals)) && (i >= len(cols) || !refcol.Equal(anyList(cols[i].vals), anyList(cl.vals))) {
									c.Violation("C18/target-received-other-column", id, fmt.Sprintf("%s: rejected, but target %d now holds the data of column %d", desc(), i, j), nil)
									return
								}
							}
						}
						return // after a rejection the decode stops
					}
				}
				inferred := auto
				if mode == "colauto" {
					inferred = cauto
				}
				if (mode == "auto" || mode == "colauto") && accept && !endMarker && len(inferred) == len(cols) {
					for i, cl := range cols {
						ac, ok := unwrapAuto(inferred[i].Data)
						if !ok {
							continue
						}
						if t, perr := refcol.Parse(string(ac.Type())); perr == nil && !compatRef(types[cl.kind], t) {
							// the column that received the rows is of a type the block's type cannot bind to
							c.Violation("C18/incompatible-block-accepted/auto/stale-column", id, fmt.Sprintf("%s: decoded without error into inferred target %d, whose column is a %T of type %s", desc(), i, ac, ac.Type()), nil)
							return
						}
						if ad := adopted18(types[cl.kind], ac.Type()); ad != "" {
							c.Violation("C18/parameters-not-adopted", id, fmt.Sprintf("%s: inferred target %d reports type %s afterwards: %s", desc(), i, ac.Type(), ad), nil)
							return
						}
						if w, werr := reg.WrapAs(ac, types[cl.kind], kinds[cl.kind].label); werr == nil && hasRow(ac) {
							if got := rowsCanonAs(w, nil); got != nil && !refcol.Equal(anyList(got), anyList(cl.vals)) && !(len(got) == 0 && len(cl.vals) == 0) {
								c.Violation("C18/target-holds-wrong-values", id, fmt.Sprintf("%s: inferred target %d holds %s, its column carries %s", desc(), i, refcol.Show(anyList(got)), refcol.Show(anyList(cl.vals))), nil)
								return
							}
						}
					}
				}
				if mode == "auto" && accept && bi == 0 && len(auto) != len(cols) {
					c.Violation("C18/auto-column-count", id, fmt.Sprintf("%s: %d inferred columns", desc(), len(auto)), nil)
					return
				}
				if !accept && mode != "colauto" {
					return
				}
			}
		})
		if msg != "" {
			c.Violation("C18/panic/"+fn, id, msg, nil)
		}
		c.Eval("cases", 1)
		c.DistinctN(1)
	}

	nk := len(kinds)
	// second-block kinds: unrelated types and every parameter-only sibling
	var pairKinds []int
	for _, l := range []string{"UInt8", "String", "Enum8('a'=1,'b'=2,'c'=-3)", "FixedString(3)", "Enum8('x'=5,'y'=6)", "DateTime64(3)", "DateTime64(6)", "DateTime('UTC')", "Array(DateTime64(9))", "Decimal(18, 4)", "Decimal(19, 4)"} {
		for i, k := range kinds {
			if k.label == l {
				pairKinds = append(pairKinds, i)
			}
		}
	}
	var schemas [][]int
	var rec func(pre []int)
	rec = func(pre []int) {
		schemas = append(schemas, append([]int{}, pre...))
		if len(pre) == maxCols {
			return
		}
		for k := 0; k < nk; k++ {
			rec(append(pre, k))
		}
	}
	rec(nil)
	for si, sch := range schemas {
		if c.Only == "" && !c.Mine(int64(si)) {
			continue
		}
		for _, rows := range []int{0, 2} {
			var cols []col18
			for i, k := range sch {
				_, vals := blockVals(kinds[k], i, rows)
				cols = append(cols, col18{name: fmt.Sprintf("c%d", i), kind: k, vals: vals})
			}
			base := fmt.Sprintf("%v/rows=%d", sch, rows)
			eq := make([]target18, len(sch))
			for i, k := range sch {
				eq[i] = target18{name: cols[i].name, kind: k}
			}
			one := [][]col18{cols}
			check(base+"/equal", one, rows, eq, "typed")
			check(base+"/auto", one, rows, nil, "auto")
			check(base+"/none", one, rows, nil, "none")
			check(base+"/no-targets", one, rows, nil, "typed")
			// permutations (of two positions)
			for i := 0; i < len(sch); i++ {
				for j := i + 1; j < len(sch); j++ {
					p := append([]target18{}, eq...)
					p[i], p[j] = p[j], p[i]
					check(fmt.Sprintf("%s/swap%d%d", base, i, j), one, rows, p, "typed")
					// same kinds, only the names swapped
					q := append([]target18{}, eq...)
					q[i].name, q[j].name = q[j].name, q[i].name
					check(fmt.Sprintf("%s/swapnames%d%d", base, i, j), one, rows, q, "typed")
				}
			}
			for i := range sch {
				r := append([]target18{}, eq...)
				r[i].name = "other"
				check(fmt.Sprintf("%s/renamed%d", base, i), one, rows, r, "typed")
				b := append([]target18{}, eq...)
				b[i].name = ""
				check(fmt.Sprintf("%s/blank%d", base, i), one, rows, b, "typed")
				m := append(append([]target18{}, eq[:i]...), eq[i+1:]...)
				check(fmt.Sprintf("%s/missing%d", base, i), one, rows, m, "typed")
				for k := 0; k < nk; k++ {
					if k == sch[i] {
						continue
					}
					s := append([]target18{}, eq...)
					s[i].kind = k
					check(fmt.Sprintf("%s/kind%d=%d", base, i, k), one, rows, s, "typed")
				}
			}
			x := append(append([]target18{}, eq...), target18{name: "extra", kind: 3})
			check(base+"/extra", one, rows, x, "typed")
			// pairs of blocks against the same targets: the second block changes one thing
			if len(sch) > 0 && rows == 2 {
				for i := range sch {
					c2 := append([]col18{}, cols...)
					c2[i].name = "renamed"
					check(fmt.Sprintf("%s/pair-renamed%d", base, i), [][]col18{cols, c2}, rows, eq, "typed")
					blank := append([]target18{}, eq...)
					blank[i].name = ""
					check(fmt.Sprintf("%s/pair-blank-then-renamed%d", base, i), [][]col18{cols, c2}, rows, blank, "typed")
					for _, k := range pairKinds {
						if k == sch[i] {
							continue
						}
						c3 := append([]col18{}, cols...)
						_, vals := blockVals(kinds[k], i, rows)
						c3[i] = col18{name: cols[i].name, kind: k, vals: vals}
						check(fmt.Sprintf("%s/pair-kind%d=%d", base, i, k), [][]col18{cols, c3}, rows, eq, "typed")
						check(fmt.Sprintf("%s/pair-auto-kind%d=%d", base, i, k), [][]col18{cols, c3}, rows, nil, "auto")
						// a retry: the changed block offered twice (a refusal must not make the refused type
						// stick to the inferred target), and the first schema again after it
						check(fmt.Sprintf("%s/triple-colauto-kind%d=%d-again", base, i, k), [][]col18{cols, c3, c3}, rows, nil, "colauto")
						check(fmt.Sprintf("%s/triple-colauto-kind%d=%d-back", base, i, k), [][]col18{cols, c3, cols}, rows, nil, "colauto")
					}
					// the same schema again with other values: targets must hold only the second block
					c4 := append([]col18{}, cols...)
					for j := range c4 {
						_, vals := blockVals(kinds[c4[j].kind], j+1, rows)
						c4[j].vals = vals
					}
					check(fmt.Sprintf("%s/pair-same-schema", base), [][]col18{cols, c4}, rows, eq, "typed")
					// a zero-row block of the same schema after a block with rows: targets must end up empty
					c5 := append([]col18{}, cols...)
					for j := range c5 {
						c5[j].vals = nil
					}
					check(fmt.Sprintf("%s/pair-then-zero-rows", base), [][]col18{cols, c5}, -1, eq, "typed")
				}
			}
		}
	}
	c.Sample(map[string]any{"block": "c0 Enum8('x'=5,'y'=6), c1 FixedString(3); 2 rows", "targets": "c0 name-based enum column with another definition, c1 FixedString(8)", "reference_verdict": "reject (FixedString width differs); the enum target would adopt the server's definition"})
}
