//go:build go1.25

package sched

import (
	"context"
	"errors"
	"fmt"
	"strings"
	"time"

	ch "github.com/ClickHouse/ch-go"

	"verif/refwire"
	"verif/simnet"
	"verif/vk"
	"verif/vrt/vsched"
)

// cancelMode: how the caller's context ends.
type cancelMode struct {
	name     string
	deadline time.Duration // 0: explicit cancel() from a canceller thread
	far      time.Duration // with an explicit cancel: the context also carries this (far) deadline
}

func harnessThread(name string) bool {
	for _, p := range []string{"main", "peer", "canceller", "probe-peer"} {
		if strings.HasPrefix(name, p) {
			return true
		}
	}
	return false
}

// body10 runs scenario s with a context that is cancelled / expires somewhere.
func body10(s scn, m cancelMode, readTimeout time.Duration, stall bool) Body {
	return body10s(s, m, readTimeout, stall, 0)
}

// body10s: silentAfter > 0 makes the server fall silent after that many script steps (only
// the cancellation can end the query then).
func body10s(s scn, m cancelMode, readTimeout time.Duration, stall bool, silentAfter int) Body {
	return body10p(s, m, readTimeout, stall, silentAfter, "")
}

// body10p: prelude != "" gives the client a history (an earlier query that ended well or
// with a server exception) before the query that is cancelled.
func body10p(s scn, m cancelMode, readTimeout time.Duration, stall bool, silentAfter int, prelude string) Body {
	return func() Outcome {
		name := "C10/" + s.name
		if prelude != "" {
			name += "-after-" + prelude
		}
		if silentAfter > 0 {
			name += "-silent"
		}
		if silentAfter < 0 {
			name += "-chatty"
		}
		opt := s.opt
		opt.ReadTimeout = readTimeout
		rt := readTimeout
		if rt == 0 {
			rt = ch.DefaultReadTimeout
		}
		c, err := Connect(opt, baseHello)
		if err != nil {
			return Outcome{Key: name + "/handshake-failed", Detail: err.Error()}
		}
		if silentAfter < 0 {
			// runs after the Close below: gives the chattering peer the second it needs to
			// wake up, find the connection closed and leave
			defer vsched.Quiet(func() { simnet.Gap(2 * time.Second) })
		}
		defer vsched.Quiet(func() { _ = c.C.Close() })
		if msg := c.Prelude(prelude); msg != "" {
			return Outcome{Key: name + "/prelude-failed", Detail: msg}
		}
		if s.closeErr {
			c.C.CloseErr = errors.New("simnet: close_notify could not be written")
		}
		if stall {
			c.C.StallWrites = true
		}
		if s.oneByte {
			c.C.OneByte = true
		}
		fa := &failAt{}
		q, steps := s.mk(c, fa)
		if silentAfter > 0 && silentAfter < len(steps) {
			steps = steps[:silentAfter]
		}
		if silentAfter < 0 {
			// a chatty server: after -silentAfter steps it reports progress once a second (well
			// inside the read timeout) for two minutes and never ends the stream
			steps = steps[:-silentAfter]
			for i := 0; i < 120; i++ {
				steps = append(steps, Step{Name: "chatter", Send: c.W.Progress(refwire.Progress{Rows: 1, Bytes: 8}), Gap: time.Second})
			}
		}
		total := 0
		for _, st := range steps {
			total += len(st.Send)
		}
		if silentAfter != 0 {
			total++ // the stream never ends: nothing counts as completely consumed
		}
		c.RunPeer("peer", c.HsLen, steps, nil)
		var ctx context.Context
		var cancel context.CancelFunc
		var cancelAt time.Time
		var stolenAtCancel time.Duration
		want := context.Canceled
		if m.deadline > 0 {
			at := time.Now().Add(m.deadline)
			vsched.RegisterTimer(at)
			ctx, cancel = context.WithDeadline(context.Background(), at)
			cancelAt = at
			want = context.DeadlineExceeded
		} else {
			parent := context.Background()
			if m.far > 0 {
				at := time.Now().Add(m.far)
				vsched.RegisterTimer(at)
				var pc context.CancelFunc
				parent, pc = context.WithDeadline(parent, at)
				defer pc()
			}
			ctx, cancel = context.WithCancel(parent)
			vsched.Go("canceller", func() {
				vsched.PointCtxWrite("cancel")
				cancelAt = time.Now()
				stolenAtCancel = vsched.Stolen()
				cancel()
			})
		}
		defer cancel()
		t0 := time.Now()
		derr := c.Cl.Do(ctx, q)
		ret := time.Now()
		ctxErr := ctx.Err()
		if ctxErr != nil {
			want = ctxErr
		}
		if m.far > 0 && (cancelAt.IsZero() || t0.Add(m.far).Before(cancelAt)) && !ret.Before(t0.Add(m.far)) {
			// the far deadline came first (a clock deviation): that is the instant the context ended
			cancelAt, stolenAtCancel = t0.Add(m.far), 0
		}
		live := vsched.Live()
		// stop the canceller from mattering after the call returned
		consumedAll := c.C.Consumed() >= c.HsIn+total
		obs := errClass(derr)
		if derr == nil {
			if !consumedAll {
				return Outcome{Obs: obs, Key: name + "/nil-without-end-of-stream", Detail: fmt.Sprintf("Do returned nil although only %d of %d server bytes were consumed", c.C.Consumed()-c.HsIn, total)}
			}
			vsched.Quiet(func() { _ = c.Cl.Close() })
			return Outcome{Obs: "nil(completed)"}
		}
		cancelled := ctxErr != nil
		if !cancelled {
			// the query failed for a reason of its own before the context ended: not C10's business
			vsched.Quiet(func() { _ = c.Cl.Close() })
			return Outcome{Obs: "err-before-cancel:" + obs}
		}
		if !errors.Is(derr, want) {
			key := name + "/error-does-not-match-context"
			if obs == "net" && m.deadline > 0 {
				key = name + "/transport-timeout-instead-of-context-error"
			}
			return Outcome{Obs: obs, Key: key, Detail: fmt.Sprintf("context ended with %v but Do returned %v", ctxErr, derr)}
		}
		if !cancelAt.IsZero() && ret.After(cancelAt) {
			// fake time that passed in clock deviations (a runnable thread being held back) is
			// not latency of the library
			stolen := vsched.Stolen() - stolenAtCancel
			if m.deadline > 0 || stolenAtCancel == 0 {
				stolen = vsched.Stolen()
			}
			if d, limit := ret.Sub(cancelAt)-stolen, rt+time.Second+50*time.Millisecond; d > limit {
				return Outcome{Obs: obs, Key: name + "/not-prompt", Detail: fmt.Sprintf("Do returned %v after the context ended (limit read timeout %v + 1s)", d, rt)}
			}
		}
		for _, n := range live {
			if !harnessThread(n) {
				return Outcome{Obs: obs, Key: name + "/goroutine-outlives-call", Detail: fmt.Sprintf("goroutine %q started by Do is still alive after Do returned (live: %v)", n, live)}
			}
		}
		// The cancel path: exactly one Cancel packet (best effort) and a closed connection.
		var small [][]byte
		for _, w := range c.C.WriteLog() {
			if len(w.Data) <= 2 && len(w.Data) > 0 && w.At > 0 && w.Data[0] != 0x04 {
				small = append(small, w.Data)
			}
		}
		// only post-handshake writes count: the handshake never writes <= 2 bytes (hello is longer; addendum is 1 byte 0x00 — excluded by position below)
		small = small[:0]
		off := 0
		for _, w := range c.C.WriteLog() {
			if off >= c.HsLen && len(w.Data) > 0 && len(w.Data) <= 2 {
				small = append(small, w.Data)
			}
			off += len(w.Data)
		}
		if len(small) > 1 {
			return Outcome{Obs: obs, Key: name + "/cancel-written-twice", Detail: fmt.Sprintf("cancel path wrote %x", small)}
		}
		if len(small) == 1 && string(small[0]) != "\x03" {
			return Outcome{Obs: obs, Key: name + "/cancel-packet-malformed", Detail: fmt.Sprintf("the cancel path wrote %x, a Cancel packet is the single byte 03", small[0])}
		}
		if !c.C.IsClosed() || !c.Cl.IsClosed() {
			// A cancellation that lands after the server's EndOfStream has been consumed lands
			// after the query: the client may stay open, but then it must be fully usable.
			if !consumedAll || c.C.IsClosed() != c.Cl.IsClosed() {
				return Outcome{Obs: obs, Key: name + "/connection-not-closed", Detail: fmt.Sprintf("after cancellation in the middle of the query conn closed=%v client closed=%v (server bytes consumed %d of %d)", c.C.IsClosed(), c.Cl.IsClosed(), c.C.Consumed()-c.HsIn, total)}
			}
			pr := c.Probe(name)
			if pr.Key != "" {
				return Outcome{Obs: obs, Key: pr.Key, Detail: "client left open after a cancellation that followed EndOfStream: " + pr.Detail}
			}
			return Outcome{Obs: obs + " open-after-eos"}
		}
		sent := "cancel-sent"
		if len(small) == 0 {
			sent = "cancel-not-sent"
		}
		return Outcome{Obs: obs + " " + sent}
	}
}

// bodyHandshakeCancel: Connect with a context that ends while the hello is outstanding.
func bodyHandshakeCancel(m cancelMode, helloAfter time.Duration, readTimeout time.Duration) Body {
	return func() Outcome {
		name := "C10/handshake"
		conn := simnet.NewConn()
		defer vsched.Quiet(func() { _ = conn.Close() })
		hb := ServerHello(baseHello, 54460)
		vsched.Go("peer", func() {
			closed := false
			conn.Await(func(out []byte, cl bool) bool { closed = cl; return cl || len(out) > 0 })
			if closed {
				return
			}
			if helloAfter < 0 {
				return // silent server
			}
			if helloAfter > 0 {
				simnet.Gap(helloAfter)
			}
			conn.Deliver(hb)
		})
		var ctx context.Context
		var cancel context.CancelFunc
		var cancelAt time.Time
		var stolenAtCancel time.Duration
		want := context.Canceled
		t0 := time.Now()
		if m.deadline > 0 {
			at := time.Now().Add(m.deadline)
			vsched.RegisterTimer(at)
			ctx, cancel = context.WithDeadline(context.Background(), at)
			cancelAt = at
			want = context.DeadlineExceeded
		} else {
			ctx, cancel = context.WithCancel(context.Background())
			vsched.Go("canceller", func() {
				vsched.PointCtxWrite("cancel")
				cancelAt = time.Now()
				stolenAtCancel = vsched.Stolen()
				cancel()
			})
		}
		defer cancel()
		cl, err := ch.Connect(ctx, conn, ch.Options{ReadTimeout: readTimeout})
		ret := time.Now()
		live := vsched.Live()
		if err == nil {
			if cl == nil {
				return Outcome{Key: name + "/nil-client", Detail: "Connect returned neither client nor error"}
			}
			vsched.Quiet(func() { _ = cl.Close() })
			return Outcome{Obs: "connected"}
		}
		if cl != nil {
			return Outcome{Key: name + "/client-and-error", Detail: "Connect returned a client together with an error"}
		}
		rt := readTimeout
		if rt == 0 {
			rt = ch.DefaultReadTimeout
		}
		if ctx.Err() == nil {
			vsched.Quiet(func() { _ = conn.Close() })
			return Outcome{Obs: "failed-before-cancel:" + errClass(err)}
		}
		if !errors.Is(err, want) {
			if cls := errClass(err); (cls == "net" || (cls == "deadline" && want == context.Canceled)) && ret.Sub(t0) >= rt {
				// the hello read timed out on its own (read timeout) before the context ended;
				// whether that is acceptable is C13's business, not a cancellation failure
				return Outcome{Obs: "read-timeout-before-cancel"}
			}
			return Outcome{Key: name + "/error-does-not-match-context", Detail: fmt.Sprintf("context ended with %v but Connect returned %v", ctx.Err(), err)}
		}
		if !conn.IsClosed() {
			return Outcome{Key: name + "/connection-not-closed", Detail: "handshake cancelled but the connection was left open"}
		}
		stolen := vsched.Stolen() - stolenAtCancel
		if m.deadline > 0 {
			stolen = vsched.Stolen()
		}
		if !cancelAt.IsZero() && ret.Sub(cancelAt)-stolen > rt+time.Second {
			return Outcome{Key: name + "/not-prompt", Detail: fmt.Sprintf("Connect returned %v after the context ended", ret.Sub(cancelAt)-stolen)}
		}
		for _, n := range live {
			if !harnessThread(n) {
				return Outcome{Key: name + "/goroutine-outlives-call", Detail: fmt.Sprintf("goroutine %q is still alive after Connect returned", n)}
			}
		}
		return Outcome{Obs: "cancelled:" + errClass(err)}
	}
}

// C10 — cancellation ends the query promptly, sends Cancel and closes the connection.
func C10(c *vk.Ctx) {
	c.Rule("scenarios {select, insert, streamed insert, LZ4 select, select with telemetry, insert with stalled writes, select during which the server falls silent inside a Data block or inside the nested part of an exception chain (also on a transport that hands over one byte per read, so that every earlier body read armed a deadline of its own), select and insert during which the server falls silent or keeps reporting progress once a second without ever ending the stream, select on a transport whose Close reports an error, select and insert (also with a silent server) on a client whose previous query ended with a server exception or ended well, handshake with prompt / late / no hello} x {explicit cancel() from a canceller thread placed by the scheduler at every point of every other thread, context deadline at fake 1 s and 5 s, explicit cancel of a context that also carries a 1 h deadline, or a 1 s deadline that passes while the call is still winding down} x read timeout {3 s, 100 ms} x all schedules (incl. clock steps) up to the deviation bound. distinct_nontrivial = executions.")
	quick := c.Quick()
	bound := 1
	if !quick {
		bound = 2
	}
	scs := scenarios()
	pick := map[string]bool{"select": true, "insert": true, "insert-stream": true, "select-lz4": true, "select-telemetry": true}
	type job struct {
		id    string
		body  Body
		bound int
		split bool
		kb    string
	}
	var jobs []job
	modes := []cancelMode{{"cancel", 0, 0}, {"deadline1s", time.Second, 0}, {"deadline5s", 5 * time.Second, 0}}
	for _, s := range scs {
		if !pick[s.name] {
			continue
		}
		for _, m := range modes {
			for _, rt := range []time.Duration{0, 100 * time.Millisecond} {
				if quick && rt != 0 && (s.name == "select-lz4" || s.name == "select-telemetry") {
					continue
				}
				b := bound
				if m.deadline > 0 && quick {
					b = 1
				}
				id := fmt.Sprintf("%s/%s/rt=%v", s.name, m.name, rt)
				jobs = append(jobs, job{id, body10(s, m, rt, false), b, true, "C10/" + s.name})
			}
		}
	}
	// the server falls silent in the middle of the query; the context carries a far deadline
	// and is cancelled explicitly (or only has the explicit cancel / a near deadline)
	farModes := []cancelMode{{"cancel+deadline1h", 0, time.Hour}, {"cancel", 0, 0}, {"deadline5s", 5 * time.Second, 0}}
	for _, s := range scs {
		if s.name != "select" && s.name != "insert" {
			continue
		}
		for _, m := range farModes {
			id := fmt.Sprintf("%s-silent/%s", s.name, m.name)
			jobs = append(jobs, job{id, body10s(s, m, 0, false, 3), bound, true, "C10/" + s.name + "-silent"})
		}
	}
	// the server keeps reporting progress (packets well inside the read timeout) and never
	// ends the stream: only the cancellation can end the query
	for _, s := range scs {
		if s.name != "select" && s.name != "insert" {
			continue
		}
		for _, m := range []cancelMode{{"cancel", 0, 0}, {"deadline5s", 5 * time.Second, 0}, {"cancel+deadline1h", 0, time.Hour}} {
			id := fmt.Sprintf("%s-chatty/%s", s.name, m.name)
			jobs = append(jobs, job{id, body10s(s, m, 0, false, -3), bound, true, "C10/" + s.name + "-chatty"})
		}
	}
	// the server starts a packet and falls silent inside it: inside a Data block, and inside
	// the nested part of an exception chain (after a complete first exception)
	for _, s := range scs {
		if s.name != "select" {
			continue
		}
		for _, part := range []string{"data", "nested-exception"} {
			ps := s
			ps.name = s.name + "-silent-inside-" + part
			mk := s.mk
			part := part
			ps.mk = func(c *Conn, fa *failAt) (ch.Query, []Step) {
				q, steps := mk(c, fa)
				var b []byte
				if part == "data" {
					full := c.W.Data(3, Col("v", "UInt64", U64(1), U64(2), U64(3)))
					b = full[:len(full)-5]
				} else {
					one := c.W.Exception(excReadonly)
					two := c.W.Exception(excReadonly, excReadonly)
					b = two[:len(one)+7] // the first exception (marked as having a cause) and 7 bytes of the second
				}
				return q, []Step{steps[0], steps[1], {Name: "partial", Send: b}}
			}
			// (cancel+deadline1s: cancelled explicitly under a context whose own deadline passes
			// before the stalled read gives up — the error must match the cause that came first)
			for _, m := range []cancelMode{{"cancel", 0, 0}, {"deadline1s", time.Second, 0}, {"deadline5s", 5 * time.Second, 0}, {"cancel+deadline1s", 0, time.Second}} {
				id := fmt.Sprintf("%s/%s", ps.name, m.name)
				jobs = append(jobs, job{id, body10s(ps, m, 0, false, 99), bound, true, "C10/" + ps.name})
			}
			// the same with a transport that delivers one byte per Read: the packets before the
			// silence were read piecewise, each body read with a deadline of its own
			bs := ps
			bs.name += "-bytewise"
			bs.oneByte = true
			for _, m := range []cancelMode{{"cancel", 0, 0}, {"deadline5s", 5 * time.Second, 0}} {
				id := fmt.Sprintf("%s/%s", bs.name, m.name)
				jobs = append(jobs, job{id, body10s(bs, m, 0, false, 99), bound, true, "C10/" + bs.name})
			}
		}
	}
	// a transport whose Close tears the connection down but reports an error: the cancelled
	// client must still end up closed
	for _, s := range scs {
		if s.name == "select" || (s.name == "insert" && !quick) {
			cs := withCloseErr(s)
			for _, m := range []cancelMode{{"cancel", 0, 0}, {"deadline1s", time.Second, 0}} {
				jobs = append(jobs, job{fmt.Sprintf("%s/%s", cs.name, m.name), body10(cs, m, 0, false), bound, true, "C10/" + cs.name})
			}
		}
	}
	jobs = append(jobs, job{"select/cancel+deadline1h/rt=0s", body10(scs[3], farModes[0], 0, false), bound, true, "C10/select"})
	// clients with a history: an earlier query on the same client ended well / with a
	// server exception (the client stays open); then the cancelled query
	for _, s := range scs {
		if s.name != "select" && s.name != "insert" {
			continue
		}
		for _, pre := range []string{"exception", "ok"} {
			for _, m := range []cancelMode{{"cancel", 0, 0}, {"deadline1s", time.Second, 0}} {
				if quick && pre == "ok" && m.deadline > 0 {
					continue
				}
				id := fmt.Sprintf("%s-after-%s/%s", s.name, pre, m.name)
				jobs = append(jobs, job{id, body10p(s, m, 0, false, 0, pre), bound, true, "C10/" + s.name + "-after-" + pre})
				if pre == "exception" {
					id = fmt.Sprintf("%s-after-%s-silent/%s", s.name, pre, m.name)
					jobs = append(jobs, job{id, body10p(s, m, 0, false, 3, pre), bound, true, "C10/" + s.name + "-after-" + pre + "-silent"})
				}
			}
		}
	}
	for _, m := range modes {
		id := fmt.Sprintf("insert-stall/%s", m.name)
		jobs = append(jobs, job{id, body10(scs[0], m, 0, true), bound, true, "C10/insert-stall"})
	}
	for _, m := range modes {
		for _, after := range []time.Duration{0, 2 * time.Second, -1} {
			id := fmt.Sprintf("handshake/%s/hello=%v", m.name, after)
			hb := bound
			if !quick {
				hb = bound + 1
			}
			jobs = append(jobs, job{id, bodyHandshakeCancel(m, after, 0), hb, true, "C10/handshake"})
		}
	}
	minBound := 99
	for i, j := range jobs {
		var replay []int
		if c.Only != "" {
			sid, chs := SplitCase(c.Only)
			if sid != j.id {
				continue
			}
			replay = ParseChoices(chs)
		} else if !j.split && !c.Mine(int64(i)) {
			continue
		}
		c.Current(j.id)
		curBound = j.bound
		e := &Explorer{C: c, Scenario: j.id, KeyBase: j.kb, Body: j.body, Split: j.split}
		if c.Only != "" {
			ReplayAndPrint(c, e, replay)
			return
		}
		st := e.Run(j.bound)
		Account(c, strings.SplitN(j.id, "/", 2)[0], st)
		c.DistinctN(st.Executions)
		if st.BoundDone < minBound {
			minBound = st.BoundDone
		}
		if st.FirstSample != nil && strings.HasPrefix(j.id, "select/cancel") {
			c.Sample(map[string]any{"scenario": j.id, "bound": j.bound, "executions": st.Executions, "outcomes": st.Outcomes, "default_schedule_trace": tailS(st.FirstSample.Trace(), 50)})
		}
		if c.OverBudget() {
			break
		}
	}
	if minBound == 99 {
		minBound = 0
	}
	c.SetBound(minBound)
	_ = refwire.ClientCancelCode
}
