//go:build go1.25

// Package sched holds the scheduler-based checks: every execution runs the real ch /
// chpool code (instrumented by cmd/vinstr, injected with -overlay) inside a
// testing/synctest bubble under vrt/vsched; Explore enumerates all schedules up to a
// preemption bound.
package sched

import (
	"fmt"
	"os"
	"sort"
	"strconv"
	"strings"
	"sync"
	"testing"
	"testing/synctest"
	"time"

	"verif/vk"
	"verif/vrt/vsched"
)

// T is the *testing.T of the worker's single test function (synctest needs one).
var T *testing.T

// Outcome is what a scenario body reports at the end of one execution.
type Outcome struct {
	Obs    string // oracle-relevant observation (counted as a distinct outcome)
	Key    string // violation key ("" = property held on this execution)
	Detail string
	Aux    string // secondary observation for differential oracles (not counted as an outcome)
}

// Exec is one finished execution.
type Exec struct {
	Choices  []int
	Points   []vsched.PointInfo
	sched    *vsched.Sched
	Steps    int
	Deadlock bool
	TimedOut bool
	Diverged string
	Panics   []string
	Leaked   []string
	Out      Outcome
	FakeTime time.Duration
}

// Trace renders the operation trace (formatted lazily: most executions never need it).
func (x *Exec) Trace() []string {
	if x.sched == nil {
		return nil
	}
	return x.sched.Trace()
}

type Body func() Outcome

// RunOnce executes body under the scheduler following prefix (default choice afterwards).
func RunOnce(prefix []int, paranoid bool, body Body) (res Exec) {
	// synctest.Test runs on a helper goroutine: when the race detector reported something
	// during the bubble, package testing fails the bubble's T and Test calls t.FailNow,
	// i.e. runtime.Goexit — that must end the helper, not the worker.
	done := make(chan struct{})
	go func() {
		defer close(done)
		defer func() {
			// synctest panics in the caller when the bubble's root returns while goroutines
			// are still durably blocked: a deadlock of the code under test (or a goroutine that
			// outlived the call), reported as such instead of killing the worker.
			if r := recover(); r != nil {
				vsched.S = nil
				msg := fmt.Sprint(r)
				if !strings.Contains(msg, "deadlock") {
					panic(r)
				}
				res.Deadlock = true
				res.Leaked = append(res.Leaked, "bubble: "+msg)
			}
		}()
		synctest.Test(T, func(t *testing.T) {
			s := &vsched.Sched{Prefix: prefix, Horizon: 90 * time.Minute, Paranoid: paranoid, MaxSteps: 20000}
			vsched.S = s
			var out Outcome
			var mu sync.Mutex // real mutex: the hand-off of out must be visible to the race detector
			s.Main("main", func() {
				o := body()
				mu.Lock()
				out = o
				mu.Unlock()
			})
			s.Run()
			vsched.S = nil
			mu.Lock()
			o := out
			mu.Unlock()
			res = Exec{Choices: s.Choices, Points: s.Points, sched: s, Steps: s.Steps, Deadlock: s.Deadlock, TimedOut: s.TimedOut,
				Diverged: s.Diverged, Panics: s.Panics(), Out: o, FakeTime: s.Elapsed()}
			if s.Deadlock {
				res.Leaked = s.Leaked()
			}
		})
	}()
	<-done
	return res
}

// Stats of one exploration.
type Stats struct {
	Executions  int64
	Steps       int64
	States      int64
	Pruned      int64
	MaxPoints   int
	Outcomes    map[string]int64
	BoundDone   int  // last bound completed (-1: none)
	BudgetHit   bool // exploration stopped by the wall-clock budget
	Violations  int
	FirstSample *Exec
}

// Explorer enumerates schedules of one scenario instance.
type Explorer struct {
	C        *vk.Ctx
	Scenario string // case id prefix
	KeyBase  string // prefix of engine-level violation keys (property/scenario)
	Body     Body
	NoMemo   bool
	// Split distributes the subtrees below depth 2 of the search over the shards (used
	// when the outer enumeration has too few items to keep all workers busy).
	Split bool
	// PostCheck, when set, derives a violation from engine-level facts (deadlock, panic,
	// leak) in addition to the body's own oracle.
	PostCheck func(x *Exec) (key, detail string)
	// AfterExec runs after every execution (race-report collection).
	AfterExec func(x *Exec)
}

func (e *Explorer) verdict(x *Exec) (string, string) {
	if x.Diverged != "" {
		harness("replay divergence in %s: %s", e.Scenario, x.Diverged)
	}
	kb := e.KeyBase
	if kb == "" {
		kb = e.Scenario
	}
	if len(x.Panics) > 0 {
		return kb + "/panic", "controlled thread panicked: " + strings.Join(x.Panics, "; ")
	}
	if x.Deadlock {
		why := "deadlock"
		if x.TimedOut {
			why = "did-not-return"
		}
		// which library threads are stuck where (harness peers excluded) makes the key specific
		var sites []string
		for _, l := range x.Leaked {
			if strings.HasPrefix(l, "bubble:") || strings.Contains(l, "(peer") || strings.Contains(l, "(probe-peer") || strings.Contains(l, "(canceller") {
				continue
			}
			if i := strings.LastIndex(l, "@"); i >= 0 {
				sites = append(sites, l[i+1:])
			}
		}
		sort.Strings(sites)
		why += "[" + strings.Join(sites, ",") + "]"
		return kb + "/" + why, fmt.Sprintf("execution did not finish (%s at fake time %v); threads not done: %v; trace tail: %v", why, x.FakeTime, x.Leaked, tailS(x.Trace(), 25))
	}
	if e.PostCheck != nil {
		if k, d := e.PostCheck(x); k != "" {
			return k, d
		}
	}
	return x.Out.Key, x.Out.Detail
}

func tailS(s []string, n int) []string {
	if len(s) > n {
		return s[len(s)-n:]
	}
	return s
}

func harness(format string, a ...any) {
	fmt.Fprintf(os.Stderr, "HARNESS-ERROR: "+format+"\n", a...)
	os.Exit(2)
}

// Replay runs exactly one schedule (used by -only replays).
func (e *Explorer) Replay(choices []int) Exec {
	return RunOnce(choices, true, e.Body)
}

// Run explores all schedules with at most bound deviations (preemptions, clock steps taken
// while a thread is enabled, data choices are free), bounds 0..bound in order so that the
// first counterexample has the fewest deviations. Returns the statistics of the last bound.
func (e *Explorer) Run(bound int) Stats {
	var last Stats
	last.BoundDone = -1
	for b := 0; b <= bound; b++ {
		st := e.runBound(b)
		st.BoundDone = last.BoundDone
		if !st.BudgetHit {
			st.BoundDone = b
		}
		last = st
		if st.BudgetHit || st.Violations > 0 {
			break
		}
	}
	return last
}

func choicesStr(c []int) string {
	var sb strings.Builder
	for i, v := range c {
		if i > 0 {
			sb.WriteByte('.')
		}
		fmt.Fprint(&sb, v)
	}
	return sb.String()
}

// SplitCase splits "<scenario id>@<choices>" at the last '@'.
func SplitCase(only string) (id, choices string) {
	i := strings.LastIndex(only, "@")
	if i < 0 {
		return only, ""
	}
	return only[:i], only[i+1:]
}

// ParseChoices is the inverse of choicesStr.
func ParseChoices(s string) []int {
	if s == "" {
		return nil
	}
	var out []int
	for _, p := range strings.Split(s, ".") {
		var v int
		fmt.Sscan(p, &v)
		out = append(out, v)
	}
	return out
}

// rssLimitMB (VERIF_RSS_LIMIT_MB): a worker whose resident set passes it stops exploring.
var rssLimitMB = func() int { n, _ := strconv.Atoi(os.Getenv("VERIF_RSS_LIMIT_MB")); return n }()

func rssMB() int {
	b, err := os.ReadFile("/proc/self/statm")
	if err != nil {
		return 0
	}
	f := strings.Fields(string(b))
	if len(f) < 2 {
		return 0
	}
	pages, _ := strconv.Atoi(f[1])
	return pages * os.Getpagesize() >> 20
}

// memoCap bounds the state-signature table of one exploration (about 150 bytes per state).
const memoCap = 6_000_000

func (e *Explorer) runBound(bound int) Stats {
	c := e.C
	st := Stats{Outcomes: map[string]int64{}}
	memo := map[uint64]map[uint64]int{}
	memoFull := false
	splitCounter := int64(0)
	stop := false
	stuck := 0
	var rec func(prefix []int, depth int)
	rec = func(prefix []int, depth int) {
		if stop {
			return
		}
		if c.OverBudget() {
			st.BudgetHit = true
			stop = true
			return
		}
		if rssLimitMB > 0 && st.Executions%512 == 511 && rssMB() > rssLimitMB {
			c.Note("%s bound %d: stopped at %d executions: resident set above %d MB (race detector bookkeeping); counted as budget hit", e.Scenario, bound, st.Executions, rssLimitMB)
			c.NotExhaustive()
			st.BudgetHit = true
			stop = true
			return
		}
		paranoid := len(prefix) == 0 || st.Executions%97 == 0
		x := RunOnce(prefix, paranoid, e.Body)
		if e.AfterExec != nil {
			e.AfterExec(&x)
		}
		shared := e.Split && depth < 2 // executed by every shard, accounted by shard 0 only
		count := !shared || c.Shard == 0
		if count {
			st.Executions++
			st.Steps += int64(x.Steps)
			if len(x.Points) > st.MaxPoints {
				st.MaxPoints = len(x.Points)
			}
			st.Outcomes[x.Out.Obs]++
			if st.FirstSample == nil {
				cp := x
				st.FirstSample = &cp
			}
		}
		if key, detail := e.verdict(&x); key != "" && count {
			// a violation must reproduce from its recorded choices before it is believed
			for i := 0; i < 2; i++ {
				y := RunOnce(x.Choices, true, e.Body)
				k2, _ := e.verdict(&y)
				if k2 != key || y.Out.Obs != x.Out.Obs {
					harness("violation %q of %s does not reproduce from its schedule %v (got %q): nondeterminism not owned", key, e.Scenario, x.Choices, k2)
				}
			}
			st.Violations++
			c.Violation(key, e.Scenario+"@"+choicesStr(x.Choices), detail+fmt.Sprintf(" [bound=%d schedule=%s obs=%q]", bound, choicesStr(x.Choices), x.Out.Obs),
				map[string]any{"choices": x.Choices, "trace": tailS(x.Trace(), 120)})
			if x.Deadlock || len(x.Panics) > 0 {
				// goroutines stay stuck inside the dead bubble (a leak, nothing more); keep
				// exploring, but not without limit
				stuck++
				if stuck > 300 {
					c.Note("%s: stopped after %d stuck executions", e.Scenario, stuck)
					c.NotExhaustive()
					stop = true
					return
				}
			}
		}
		pre := 0
		for i := 0; i < len(x.Points); i++ {
			p := x.Points[i]
			n := len(p.Enabled)
			if p.Kind == 'c' {
				n = p.N
			}
			if i >= len(prefix) && !e.NoMemo && !(e.Split && depth < 2) {
				rem := bound - pre
				m := memo[p.Key]
				hit := false
				for cur, b := range m {
					need := rem
					if cur != p.Cur {
						need++
					}
					if b >= need {
						hit = true
						break
					}
				}
				if hit {
					st.Pruned++
					break
				}
				if m == nil {
					st.States++
					if len(memo) >= memoCap {
						// the table is full: the state is explored without being remembered
						// (sound, only slower); said once per scenario in the evidence notes
						if !memoFull {
							memoFull = true
							c.Note("%s bound %d: memo table full at %d states; later states are explored without memoisation", e.Scenario, bound, memoCap)
						}
						goto expand
					}
					m = map[uint64]int{}
					memo[p.Key] = m
				}
				if old, ok := m[p.Cur]; !ok || old < rem {
					m[p.Cur] = rem
				}
			expand:
			}
			if i >= len(prefix) {
				for alt := 1; alt < n; alt++ {
					cost := pre
					if p.Kind == 's' && (p.CurEnabled || p.Enabled[alt] == -1) {
						cost++ // preemption, or advancing the clock while work is enabled
					}
					if cost > bound {
						continue
					}
					if e.Split && depth == 1 {
						k := splitCounter
						splitCounter++
						if !c.Mine(k) {
							continue
						}
					}
					np := append(append([]int{}, x.Choices[:i]...), alt)
					rec(np, depth+1)
					if stop {
						return
					}
				}
			}
			if p.Kind == 's' && x.Choices[i] != 0 && (p.CurEnabled || p.Enabled[x.Choices[i]] == -1) {
				pre++
			}
		}
	}
	rec(nil, 0)
	if e.NoMemo {
		st.States = st.Executions
	}
	return st
}

// Account folds exploration statistics into the shard result.
func Account(c *vk.Ctx, group string, st Stats) {
	c.Eval(group, st.Executions)
	states := st.States
	if states == 0 {
		states = st.Executions
	}
	c.AddStates(states, st.Steps, st.Executions)
	for o, n := range st.Outcomes {
		c.Outcome(group + ": " + o)
		_ = n
	}
	if st.BudgetHit {
		c.NotExhaustive()
	}
}

// ReplayAndPrint re-executes one recorded schedule and prints its trace and verdict.
func ReplayAndPrint(c *vk.Ctx, e *Explorer, choices []int) {
	x := e.Replay(choices)
	k, d := e.verdict(&x)
	fmt.Printf("replay %s: obs=%q key=%q %s\n", c.Only, x.Out.Obs, k, d)
	for _, l := range x.Trace() {
		fmt.Println("   ", l)
	}
	if k != "" {
		c.Violation(k, c.Only, d, nil)
	}
	c.Eval("replay", 1)
}
