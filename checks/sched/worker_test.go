//go:build go1.25

package sched

import (
	"testing"

	"verif/vk"
)

// Checks is the registry of scheduler-based checks.
var Checks = map[string]vk.Check{
	"C04": C04,
	"C10": C10,
	"C12": C12,
	"C03": C03,
	"C02": C02,
	"C09": C09,
	"C13": C13,
	"C08": C08,
	"C11": C11,
}

// TestWorker is the entry point of the worker binary (`go test -c`): synctest needs a
// *testing.T, everything else is the ordinary worker protocol of package vk.
func TestWorker(t *testing.T) {
	T = t
	vk.Main(Checks)
}
