//go:build go1.25

package sched

import (
	"context"
	"errors"
	"fmt"
	"strings"
	"time"

	ch "github.com/ClickHouse/ch-go"
	"github.com/ClickHouse/ch-go/proto"

	"verif/checks/seq/reg"
	"verif/refcol"
	"verif/refwire"
	"verif/vk"
	"verif/vrt/vsched"
)

// pk is one symbol of the server-script alphabet.
type pk struct {
	sym  string
	kind string // data totals progress profile events log tablecols exc eos
	rows [][2]string
	prog refwire.Progress
	prof refwire.Profile
	evs  []EventRow
	logs []LogRow
	exc  []refwire.Exception
	min  int // lowest revision at which a server sends this packet
}

func mkRows(r ...[2]string) [][2]string { return r }

var alphabet = []pk{
	{sym: "D0", kind: "data", rows: mkRows()},
	{sym: "D1", kind: "data", rows: mkRows([2]string{"42", "only"})},
	{sym: "D3", kind: "data", rows: mkRows([2]string{"1", "a"}, [2]string{"2", "b"}, [2]string{"3", "c"})},
	{sym: "D3b", kind: "data", rows: mkRows([2]string{"7", "x"}, [2]string{"8", "y"}, [2]string{"9", "z"})},
	{sym: "End", kind: "end"},
	{sym: "T", kind: "totals", rows: mkRows([2]string{"6", "total"})},
	{sym: "P", kind: "progress", prog: refwire.Progress{Rows: 3, Bytes: 24, TotalRows: 10, WroteRows: 1, WroteBytes: 8, ElapsedNs: 12345}},
	{sym: "F", kind: "profile", prof: refwire.Profile{Rows: 3, Blocks: 1, Bytes: 24, AppliedLimit: true, RowsBeforeLimit: 9, CalculatedRowsBeforeLimit: true}},
	{sym: "E2", kind: "events", min: refwire.RevProfileEvents, evs: []EventRow{{Host: "h", Time: 1700000000, ThreadID: 7, Type: 1, Name: "Query", Value: 1}, {Host: "h2", Time: 1700000001, ThreadID: 8, Type: 2, Name: "Mem", Value: -5}}},
	{sym: "E0", kind: "events", min: refwire.RevProfileEvents},
	{sym: "L2", kind: "log", min: refwire.RevServerLogs, logs: []LogRow{{Time: 1700000000, Micro: 5, Host: "h", QueryID: "q", ThreadID: 7, Priority: 6, Source: "src", Text: "one"}, {Time: 1700000002, Text: "two"}}},
	{sym: "C", kind: "tablecols", min: refwire.RevColumnDefaults},
	// the same packet kinds with nothing (or only the less usual counters) in them: a
	// callback is owed for every packet, whatever it carries
	{sym: "P0", kind: "progress", prog: refwire.Progress{}},
	{sym: "Pw", kind: "progress", prog: refwire.Progress{WroteRows: 5, WroteBytes: 40}},
	{sym: "Pe", kind: "progress", prog: refwire.Progress{ElapsedNs: 777}},
	{sym: "F0", kind: "profile", prof: refwire.Profile{}},
	{sym: "X1", kind: "exc", exc: []refwire.Exception{{Code: 60, Name: "DB::Exception", Message: "DB::Exception: Table default.t doesn't exist", Stack: "0. stack"}}},
	{sym: "X3", kind: "exc", exc: []refwire.Exception{{Code: 395, Name: "DB::Exception", Message: "outer", Stack: "s1"}, {Code: 241, Name: "DB::Exception", Message: "middle", Stack: "s2"}, {Code: 60, Name: "DB::ErrnoException", Message: "inner", Stack: ""}}},
	{sym: "Xd", kind: "exc", exc: deepChain(40)},
	{sym: "Z", kind: "eos"},
}

// deepChain: a chain of n causes with distinct codes (every one of them must be recoverable
// from the returned error, and the packet must be read to its end).
func deepChain(n int) []refwire.Exception {
	out := make([]refwire.Exception, n)
	for i := range out {
		out[i] = refwire.Exception{Code: int32(1000 + i), Name: "DB::Exception", Message: fmt.Sprintf("cause %d", i), Stack: "s"}
	}
	return out
}

// cols renders the rows of a data packet in one of two schemas: (v UInt64, s String) or
// (lc LowCardinality(String), a Array(UInt64), nn Nullable(String)).
func (p pk) cols(schema int) []refcol.BlockCol {
	if schema == 0 {
		v, s := Col("v", "UInt64"), Col("s", "String")
		for _, r := range p.rows {
			var n uint64
			fmt.Sscan(r[0], &n)
			v.Vals = append(v.Vals, U64(n))
			s.Vals = append(s.Vals, S(r[1]))
		}
		return []refcol.BlockCol{v, s}
	}
	lc, a, nn := Col("lc", "LowCardinality(String)"), Col("a", "Array(UInt64)"), Col("nn", "Nullable(String)")
	for _, r := range p.rows {
		var n uint64
		fmt.Sscan(r[0], &n)
		lc.Vals = append(lc.Vals, S(r[1]))
		arr := []any{}
		for k := uint64(0); k < n%3; k++ {
			arr = append(arr, U64(n+k))
		}
		a.Vals = append(a.Vals, arr)
		if n%2 == 1 {
			nn.Vals = append(nn.Vals, nil)
		} else {
			nn.Vals = append(nn.Vals, S(r[1]))
		}
	}
	return []refcol.BlockCol{lc, a, nn}
}

// rowStrings shows the rows of a column set, one string per row.
func rowStrings(cols []refcol.BlockCol, rows int) []string {
	out := make([]string, rows)
	for i := range out {
		var parts []string
		for _, c := range cols {
			parts = append(parts, refcol.Show(c.Vals[i]))
		}
		out[i] = strings.Join(parts, ":")
	}
	return out
}

func (p pk) bytes(w Wire, schema int) []byte {
	cols := func() []refcol.BlockCol { return p.cols(schema) }
	switch p.kind {
	case "data":
		return w.Data(len(p.rows), cols()...)
	case "totals":
		return w.Totals(len(p.rows), cols()...)
	case "end":
		return w.EndBlock()
	case "progress":
		return w.Progress(p.prog)
	case "profile":
		return w.Profile(p.prof)
	case "events":
		return w.ProfileEvents(p.evs...)
	case "log":
		return w.Log(p.logs...)
	case "tablecols":
		return w.TableColumns(refwire.TableColumns{First: "t", Second: "columns format version: 1\n"})
	case "exc":
		return w.Exception(p.exc...)
	case "eos":
		return EOS()
	}
	panic("bad packet kind")
}

// cbSet says which callbacks the query has ("R"esult "P"rogress pro"F"ile "E"vents "L"ogs,
// lower-case e / l = the deprecated per-item variants) and which one fails ("" none).
type cbSet struct {
	have string
	fail string
}

type c03case struct {
	script  []pk
	lz4     bool
	binding string // typed auto none
	rev     int
	cb      cbSet
	schema  int
	pre     string // history of the client: "" fresh, "exception" / "ok" = outcome of an earlier query on it
}

func (k c03case) id() string {
	var syms []string
	for _, p := range k.script {
		syms = append(syms, p.sym)
	}
	id := fmt.Sprintf("%s/lz4=%v/%s/rev=%d/cb=%s/fail=%s/schema=%d", strings.Join(syms, "."), k.lz4, k.binding, k.rev, k.cb.have, k.cb.fail, k.schema)
	if k.pre != "" {
		id += "/pre=" + k.pre
	}
	return id
}

// expected runs the reference interpreter of the receive loop's specified behaviour.
func (k c03case) expected() (trace []string, result string) {
	has := func(c string) bool { return strings.Contains(k.cb.have, c) }
	fails := func(c string) bool { return k.cb.fail == c }
	sawRows := false // for the default result handler (no OnResult)
	for _, p := range k.script {
		switch p.kind {
		case "data", "totals":
			if k.binding == "none" && len(p.rows) > 0 {
				return trace, "error"
			}
			if has("R") {
				rows := []string{}
				pc := p.cols(k.schema)
				if k.binding != "none" {
					rows = rowStrings(pc, len(p.rows))
				}
				trace = append(trace, fmt.Sprintf("result(%d cols,%d rows)[%s]", len(pc), len(p.rows), strings.Join(rows, ",")))
				if fails("R") {
					return trace, "error"
				}
			} else {
				// documented: without OnResult the query fails when another block follows one with rows
				if sawRows {
					return trace, "error"
				}
				if len(p.rows) > 0 {
					sawRows = true
				}
			}
		case "end":
		case "progress":
			if has("P") {
				trace = append(trace, fmt.Sprintf("progress%+v", p.prog.Norm(k.rev)))
				if fails("P") {
					return trace, "error"
				}
			}
		case "profile":
			if has("F") {
				trace = append(trace, fmt.Sprintf("profile%+v", p.prof))
				if fails("F") {
					return trace, "error"
				}
			}
		case "events":
			if has("E") {
				var ev []string
				for _, e := range p.evs {
					ev = append(ev, fmt.Sprintf("%s/%d/%d/%d/%s/%d", e.Host, e.Time, e.ThreadID, e.Type, e.Name, e.Value))
				}
				trace = append(trace, "events["+strings.Join(ev, ",")+"]")
				if fails("E") {
					return trace, "error"
				}
			}
			if has("e") {
				for _, e := range p.evs {
					trace = append(trace, "event:"+e.Name)
				}
			}
		case "log":
			if has("L") {
				var ls []string
				for _, l := range p.logs {
					ls = append(ls, fmt.Sprintf("%d/%s/%s/%d/%d/%s/%s", l.Time, l.Host, l.QueryID, l.ThreadID, l.Priority, l.Source, l.Text))
				}
				trace = append(trace, "logs["+strings.Join(ls, ",")+"]")
				if fails("L") {
					return trace, "error"
				}
			}
			if has("l") {
				for _, l := range p.logs {
					trace = append(trace, "log:"+l.Text)
				}
			}
		case "tablecols":
		case "exc":
			var parts []string
			for _, e := range p.exc {
				parts = append(parts, fmt.Sprintf("%d|%s|%s|%s", e.Code, e.Name, e.Message, e.Stack))
			}
			return trace, "exception{" + strings.Join(parts, ";") + "}"
		case "eos":
			return trace, "nil"
		}
	}
	return trace, "nil" // unreachable: every script ends with Z
}

// seg describes how the transport delivers the server stream (C08).
type seg struct {
	cuts    []int // offsets within the query's server stream where a read must stop
	oneByte bool
	gaps    bool // an idle gap longer than the read timeout between packets
	perPkt  bool // one delivery per packet (no gaps)
	closing bool // the server closes right after its last byte, and the Read that returns that byte also returns EOF
	inner   time.Duration // > 0: the pieces (split at cuts) are sent one by one with this idle time before each
	far     bool          // the caller's context carries a deadline one hour away (it never fires)
	follow  bool          // after Do, a Ping on the same client (the peer answers it once it has seen it); its outcome goes to Outcome.Aux
}

func body03(k c03case) Body { return body03seg(k, seg{perPkt: true}, "C03") }

func body03seg(k c03case, sg seg, prop string) Body {
	return func() Outcome {
		opt := ch.Options{ProtocolVersion: k.rev}
		if k.lz4 {
			opt.Compression = ch.CompressionLZ4
		}
		hello := baseHello
		hello.Revision = k.rev
		c, err := Connect(opt, hello)
		if err != nil {
			return Outcome{Key: prop + "/handshake-failed", Detail: err.Error()}
		}
		defer vsched.Quiet(func() { _ = c.C.Close() })
		if msg := c.Prelude(k.pre); msg != "" {
			return Outcome{Key: prop + "/prelude-failed", Detail: msg}
		}
		var trace []string
		var typed proto.Results
		if k.schema == 0 {
			typed = proto.Results{{Name: "v", Data: new(proto.ColUInt64)}, {Name: "s", Data: new(proto.ColStr)}}
		} else {
			typed = proto.Results{{Name: "lc", Data: proto.NewLowCardinality[string](new(proto.ColStr))}, {Name: "a", Data: proto.NewArray[uint64](new(proto.ColUInt64))},
				{Name: "nn", Data: proto.NewColNullable[string](new(proto.ColStr))}}
		}
		var auto proto.Results
		q := ch.Query{Body: "SELECT * FROM t", QueryID: "q3"}
		switch k.binding {
		case "typed":
			q.Result = typed
		case "auto":
			q.Result = auto.Auto()
		}
		// readBound renders the rows the bound columns hold right now (canonical wire form)
		readBound := func(res proto.Results, b proto.Block) []string {
			want := alphabet[0].cols(k.schema)
			if len(res) != len(want) {
				return []string{fmt.Sprintf("BOUND-COLUMNS %d", len(res))}
			}
			var bc []refcol.BlockCol
			for i, r := range res {
				if r.Name != want[i].Name {
					return []string{"BOUND-NAMES " + r.Name}
				}
				col, ok := r.Data.(proto.Column)
				if !ok {
					return []string{fmt.Sprintf("BOUND-TYPE %T", r.Data)}
				}
				w, err := reg.Wrap(col, r.Name)
				if err != nil {
					return []string{"BOUND-WRAP " + err.Error()}
				}
				if col.Rows() != b.Rows {
					return []string{fmt.Sprintf("ROWS-MISMATCH %s=%d block=%d", r.Name, col.Rows(), b.Rows)}
				}
				c := refcol.BlockCol{Name: r.Name}
				for j := 0; j < col.Rows(); j++ {
					c.Vals = append(c.Vals, w.Canon(w.Row(j)))
				}
				bc = append(bc, c)
			}
			return rowStrings(bc, b.Rows)
		}
		has := func(s string) bool { return strings.Contains(k.cb.have, s) }
		fail := func(s string) error {
			if k.cb.fail == s {
				return errCallback
			}
			return nil
		}
		if has("R") {
			q.OnResult = func(ctx context.Context, b proto.Block) error {
				var rows []string
				switch k.binding {
				case "typed":
					rows = readBound(typed, b)
				case "auto":
					rows = readBound(auto, b)
				}
				trace = append(trace, fmt.Sprintf("result(%d cols,%d rows)[%s]", b.Columns, b.Rows, strings.Join(rows, ",")))
				return fail("R")
			}
		}
		if has("P") {
			q.OnProgress = func(ctx context.Context, p proto.Progress) error {
				trace = append(trace, fmt.Sprintf("progress%+v", refwire.Progress{Rows: p.Rows, Bytes: p.Bytes, TotalRows: p.TotalRows, WroteRows: p.WroteRows, WroteBytes: p.WroteBytes, ElapsedNs: p.ElapsedNs}))
				return fail("P")
			}
		}
		if has("F") {
			q.OnProfile = func(ctx context.Context, p proto.Profile) error {
				trace = append(trace, fmt.Sprintf("profile%+v", refwire.Profile{Rows: p.Rows, Blocks: p.Blocks, Bytes: p.Bytes, AppliedLimit: p.AppliedLimit, RowsBeforeLimit: p.RowsBeforeLimit, CalculatedRowsBeforeLimit: p.CalculatedRowsBeforeLimit}))
				return fail("F")
			}
		}
		if has("E") {
			q.OnProfileEvents = func(ctx context.Context, es []ch.ProfileEvent) error {
				var ev []string
				for _, e := range es {
					ev = append(ev, fmt.Sprintf("%s/%d/%d/%d/%s/%d", e.Host, e.Time.Unix(), e.ThreadID, e.Type, e.Name, e.Value))
				}
				trace = append(trace, "events["+strings.Join(ev, ",")+"]")
				return fail("E")
			}
		}
		if has("e") {
			q.OnProfileEvent = func(ctx context.Context, e ch.ProfileEvent) error {
				trace = append(trace, "event:"+e.Name)
				return nil
			}
		}
		if has("L") {
			q.OnLogs = func(ctx context.Context, ls []ch.Log) error {
				var out []string
				for _, l := range ls {
					out = append(out, fmt.Sprintf("%d/%s/%s/%d/%d/%s/%s", l.Time.Unix(), l.Host, l.QueryID, l.ThreadID, l.Priority, l.Source, l.Text))
				}
				trace = append(trace, "logs["+strings.Join(out, ",")+"]")
				return fail("L")
			}
		}
		if has("l") {
			q.OnLog = func(ctx context.Context, l ch.Log) error {
				trace = append(trace, "log:"+l.Text)
				return nil
			}
		}
		steps := []Step{{Name: "await-query", AwaitN: 2}}
		if sg.gaps {
			for _, p := range k.script {
				steps = append(steps, Step{Name: "gap", Gap: ch.DefaultReadTimeout + 500*time.Millisecond}, Step{Name: p.sym, Send: p.bytes(c.W, k.schema)})
			}
		} else if sg.perPkt {
			for _, p := range k.script {
				steps = append(steps, Step{Name: p.sym, Send: p.bytes(c.W, k.schema)})
			}
		} else {
			// the whole stream in one delivery: only the cuts decide what a read returns
			var all []byte
			for _, p := range k.script {
				all = append(all, p.bytes(c.W, k.schema)...)
			}
			if sg.inner > 0 {
				// every wait is shorter than the read timeout, but the packet as a whole takes longer
				prev := 0
				for _, cut := range append(append([]int{}, sg.cuts...), len(all)) {
					steps = append(steps, Step{Name: "idle", Gap: sg.inner}, Step{Name: "piece", Send: all[prev:cut]})
					prev = cut
				}
			} else {
				steps = append(steps, Step{Name: "stream", Send: all, Cut: sg.closing})
			}
			c.C.EOFWithData = sg.closing
		}
		for _, cut := range sg.cuts {
			if sg.inner > 0 {
				break
			}
			c.C.Cuts = append(c.C.Cuts, c.HsIn+cut)
		}
		c.C.OneByte = sg.oneByte
		if sg.follow {
			steps = append(steps, Step{Name: "await-ping", AwaitN: 3}, Step{Name: "pong", Send: Pong()})
		}
		c.RunPeer("peer", c.HsLen, steps, nil)
		doCtx := context.Background()
		if sg.far {
			var cancelFar context.CancelFunc
			doCtx, cancelFar = context.WithDeadline(doCtx, time.Now().Add(time.Hour))
			defer cancelFar()
		}
		derr := c.Cl.Do(doCtx, q)
		aux := ""
		if sg.follow {
			// what the next request on this client sees: whatever of the stream Do left unread,
			// then the peer's Pong. Wherever those bytes sit (transport or read-ahead buffer),
			// the request must end the same way.
			vsched.Quiet(func() {
				if c.Cl.IsClosed() {
					aux = "closed"
					return
				}
				pctx, pcancel := context.WithTimeout(context.Background(), 10*time.Second)
				perr := c.Cl.Ping(pctx)
				pcancel()
				aux = fmt.Sprintf("ping=%s closed-after=%v", errClass(perr), c.Cl.IsClosed())
			})
		}
		vsched.Quiet(func() { _ = c.Cl.Close() })

		wantTrace, wantRes := k.expected()
		got := "error"
		switch {
		case derr == nil:
			got = "nil"
		case ch.IsException(derr):
			e, _ := ch.AsException(derr)
			parts := []string{fmt.Sprintf("%d|%s|%s|%s", e.Code, e.Name, e.Message, e.Stack)}
			for _, n := range e.Next {
				parts = append(parts, fmt.Sprintf("%d|%s|%s|%s", n.Code, n.Name, n.Message, n.Stack))
			}
			got = "exception{" + strings.Join(parts, ";") + "}"
			// every code of the chain must be matchable
			if !ch.IsErr(derr, e.Code) {
				return Outcome{Key: prop + "/exception-not-matchable", Detail: fmt.Sprintf("IsErr(err, %d) is false for %v", e.Code, derr)}
			}
			for _, n := range append([]ch.Exception{*e}, e.Next...) {
				if !errors.Is(derr, n.Code) {
					return Outcome{Key: prop + "/exception-chain-not-matchable", Detail: fmt.Sprintf("errors.Is(err, %d) is false for nested code of %v", n.Code, derr)}
				}
			}
		}
		obs := wantRes
		if i := strings.IndexByte(obs, '{'); i > 0 {
			obs = obs[:i]
		}
		if got != wantRes {
			cls := "result"
			switch {
			case wantRes == "nil":
				cls = "error-instead-of-nil"
			case got == "nil":
				cls = "nil-instead-of-error"
			case strings.HasPrefix(wantRes, "exception"):
				cls = "exception-chain"
			}
			return Outcome{Obs: obs, Aux: aux, Key: prop + "/return/" + cls, Detail: fmt.Sprintf("Do returned %q (%v), the reference interpreter expects %q; callback trace so far %v", got, derr, wantRes, trace)}
		}
		if strings.Join(trace, "\n") != strings.Join(wantTrace, "\n") {
			cls := "content"
			if len(trace) != len(wantTrace) {
				cls = "count"
			}
			return Outcome{Obs: obs, Aux: aux, Key: prop + "/callback-trace/" + cls + "/" + k.binding, Detail: fmt.Sprintf("callbacks observed:\n  %s\nexpected:\n  %s", strings.Join(trace, "\n  "), strings.Join(wantTrace, "\n  "))}
		}
		return Outcome{Obs: obs, Aux: aux}
	}
}

// C03 — results, telemetry and exceptions are delivered exactly once, in order.
func C03(c *vk.Ctx) {
	c.Rule("all server scripts of length <= n (quick 3, thorough 4) over the 20-symbol alphabet {Data header / 1 row / 3 rows / 3 other rows, empty end block, Totals, Progress (all counters / all zero / write counters only / elapsed time only), Profile (filled / all zero), ProfileEvents 2 / 0 rows, Log 2 rows, TableColumns, Exception depth 1 / 3 / 40, EndOfStream} followed by EndOfStream, x {plain, LZ4} x {typed, Auto, no} result binding x two block schemas ((UInt64, String) and (LowCardinality(String), Array(UInt64), Nullable(String))) with every callback present, at the newest revision; plus all scripts of length <= 2 (thorough 3) x revisions on both sides of every packet-affecting threshold x callback sets {all, none, each alone, deprecated per-item}; plus scripts of length <= 2 x each callback failing; plus scripts of length <= 2 on a client whose previous query ended with a server exception or ended well. Every case is one execution of the real Connect + Do against the reference peer (default schedule); oracle = a reference interpreter of the specified receive loop. distinct_nontrivial = cases.")
	quick := c.Quick()
	maxLen, maxLenRev := 3, 2
	if !quick {
		maxLen, maxLenRev = 4, 3
	}
	eos := alphabet[len(alphabet)-1]
	var scripts func(n int, f func([]pk))
	scripts = func(n int, f func([]pk)) {
		var rec func(pre []pk)
		rec = func(pre []pk) {
			f(append(append([]pk{}, pre...), eos))
			if len(pre) == n {
				return
			}
			for _, a := range alphabet {
				rec(append(pre, a))
			}
		}
		rec(nil)
	}
	run := func(k c03case, group string) {
		id := k.id()
		if !c.Next(id) {
			return
		}
		c.Current(id)
		x := RunOnce(nil, c.Only != "", body03(k))
		e := &Explorer{Scenario: id, KeyBase: "C03/engine"}
		key, detail := e.verdict(&x)
		c.Eval(group, 1)
		c.AddStates(1, int64(x.Steps), 1)
		c.DistinctN(1)
		c.Outcome(x.Out.Obs)
		if key != "" {
			c.Violation(key, id, detail, nil)
		}
		if c.Only != "" {
			fmt.Printf("replay %s: key=%q %s\n", id, key, detail)
			for _, l := range x.Trace() {
				fmt.Println("   ", l)
			}
		}
	}
	// partition 1: script x compression x binding, all callbacks, newest revision
	scripts(maxLen, func(s []pk) {
		for _, lz4 := range []bool{false, true} {
			for _, b := range []string{"typed", "auto", "none"} {
				for schema := 0; schema < 2; schema++ {
					run(c03case{script: s, lz4: lz4, binding: b, rev: ServerRev, cb: cbSet{have: "RPFEL"}, schema: schema}, "script x compression x binding x schema")
				}
			}
		}
	})
	// partition 2: script x revision x callback set
	revs := []int{}
	for _, t := range []int{refwire.RevBlockInfo, refwire.RevServerLogs, refwire.RevColumnDefaults, refwire.RevClientWriteInfo, refwire.RevSettingsAsStrings, refwire.RevProfileEvents, refwire.RevCustomSerialization, refwire.RevServerQueryTime} {
		revs = append(revs, t-1, t)
	}
	cbs := []string{"RPFEL", "", "R", "P", "F", "E", "L", "Rel", "RPFELel"}
	scripts(maxLenRev, func(s []pk) {
		for _, rev := range revs {
			ok := true
			for _, p := range s {
				if p.min > rev {
					ok = false
				}
			}
			if !ok {
				continue
			}
			for _, cb := range cbs {
				run(c03case{script: s, binding: "typed", rev: rev, cb: cbSet{have: cb}}, "script x revision x callbacks")
			}
		}
	})
	// partition 3: a failing callback
	scripts(2, func(s []pk) {
		for _, f := range []string{"R", "P", "F", "E", "L"} {
			for _, lz4 := range []bool{false, true} {
				run(c03case{script: s, lz4: lz4, binding: "typed", rev: ServerRev, cb: cbSet{have: "RPFEL", fail: f}}, "failing callback")
			}
		}
	})
	// partition 4: the same on a client with a history
	scripts(2, func(s []pk) {
		for _, pre := range []string{"exception", "ok"} {
			for _, lz4 := range []bool{false, true} {
				run(c03case{script: s, lz4: lz4, binding: "typed", rev: ServerRev, cb: cbSet{have: "RPFEL"}, pre: pre}, "client with a history")
			}
		}
	})
	c.Sample(map[string]any{"case": c03case{script: []pk{alphabet[0], alphabet[2], alphabet[6], eos}, binding: "typed", rev: ServerRev, cb: cbSet{have: "RPFEL"}}.id(),
		"expected_trace": func() []string {
			t, _ := c03case{script: []pk{alphabet[0], alphabet[2], alphabet[6], eos}, binding: "typed", rev: ServerRev, cb: cbSet{have: "RPFEL"}}.expected()
			return t
		}(), "expected_return": "nil"})
}
