//go:build go1.25

package sched

import (
	"context"
	"errors"
	"fmt"
	"io"
	"net"
	"strings"
	"sync"
	"time"

	ch "github.com/ClickHouse/ch-go"
	"github.com/ClickHouse/ch-go/proto"

	"verif/refwire"
	"verif/simnet"
	"verif/vrt/vsched"
)

// ServerRev is the revision the reference peer announces unless a check varies it.
const ServerRev = 54460

var baseHello = refwire.ServerHello{Name: "RefServer", Major: 24, Minor: 3, Revision: ServerRev, Timezone: "UTC", DisplayName: "ref", Patch: 7}

// Conn bundles one simulated connection with the client on top of it.
type Conn struct {
	C     *simnet.Conn
	Cl    *ch.Client
	W     Wire
	HsLen int // client bytes written during the handshake
	HsIn  int // server bytes of the handshake
}

func compressionOf(o ch.Options) (bool, byte) {
	switch o.Compression {
	case ch.CompressionLZ4, ch.CompressionLZ4HC:
		return true, refwire.MethodLZ4
	case ch.CompressionZSTD:
		return true, refwire.MethodZSTD
	case ch.CompressionNone:
		return true, refwire.MethodNone
	}
	return false, 0
}

// Connect performs the handshake against the reference hello inside a quiet region.
func Connect(opt ch.Options, hello refwire.ServerHello) (*Conn, error) {
	c := &Conn{C: simnet.NewConn()}
	clientRev := opt.ProtocolVersion
	if clientRev == 0 {
		clientRev = proto.Version
	}
	var err error
	vsched.Quiet(func() {
		hb := ServerHello(hello, clientRev)
		c.HsIn = len(hb)
		c.C.Deliver(hb)
		c.Cl, err = ch.Connect(context.Background(), c.C, opt)
	})
	if err != nil {
		return nil, err
	}
	c.HsLen = c.C.OutLen()
	c.W.Rev = min(clientRev, hello.Revision)
	c.W.Compressed, c.W.Method = compressionOf(opt)
	return c, nil
}

// Step is one step of a scripted peer.
type Step struct {
	Name    string
	AwaitN  int                     // wait until this many complete client packets have arrived (0: no wait)
	AwaitFn func(pk []CPacket) bool // or until this predicate holds on the packets parsed so far
	Send    []byte                  // then send these bytes
	Gap     time.Duration           // then let fake time pass
	Cut     bool                    // then end the server stream
	Term    bool                    // after this step the server has finished the query (EndOfStream / Exception)
}

// Inject describes a gate-level fault: at gate G (before step G; G == len(steps) means
// after the last step) the peer sends Bytes; if Stop it then abandons the script.
type Inject struct {
	G     int
	Bytes []byte
	Stop  bool
	Cut   bool // the stream ends (EOF) right after Bytes
}

// RunPeer starts the scripted peer as a controlled thread. base is the offset in the
// client stream where the query under test starts.
func (c *Conn) RunPeer(name string, base int, steps []Step, inj *Inject) {
	vsched.Go(name, func() {
		for g := 0; g <= len(steps); g++ {
			if inj != nil && inj.G == g {
				c.C.Deliver(inj.Bytes)
				if inj.Cut {
					c.C.CutRead()
					return
				}
				if inj.Stop {
					return
				}
			}
			if g == len(steps) {
				return
			}
			st := steps[g]
			if st.AwaitN > 0 || st.AwaitFn != nil {
				closed := false
				c.C.Await(func(out []byte, cl bool) bool {
					if cl {
						closed = true
						return true
					}
					pk, _, err := ParseClient(out[base:], c.W)
					if st.AwaitFn != nil {
						return err != nil || st.AwaitFn(pk)
					}
					return err != nil || len(pk) >= st.AwaitN
				})
				if closed {
					return
				}
			}
			if len(st.Send) > 0 && st.Cut && c.C.EOFWithData {
				c.C.DeliverAndCut(st.Send)
				return
			}
			if len(st.Send) > 0 {
				c.C.Deliver(st.Send)
			}
			if st.Gap > 0 {
				simnet.Gap(st.Gap)
				if c.C.IsClosed() {
					return // nobody is listening any more
				}
			}
			if st.Cut {
				c.C.CutRead()
				return
			}
		}
	})
}

// errClass folds an error into the classes the oracles distinguish.
func errClass(err error) string {
	switch {
	case err == nil:
		return "nil"
	case errors.Is(err, ch.ErrClosed):
		return "closed"
	case ch.IsException(err):
		return "exception"
	case errors.Is(err, context.Canceled):
		return "canceled"
	case errors.Is(err, context.DeadlineExceeded):
		return "deadline"
	case errors.Is(err, io.EOF), errors.Is(err, io.ErrUnexpectedEOF):
		return "eof"
	}
	var op *net.OpError
	if errors.As(err, &op) {
		return "net"
	}
	if strings.Contains(err.Error(), "callback-fail") {
		return "callback"
	}
	return "other"
}

// Prelude gives the client a history before the scenario proper: one earlier query on the
// same client that ended well ("ok") or with a server exception ("exception"; the client
// stays open by design). It runs as a quiet region (one atomic block, no branching) and
// moves the scenario's base offsets past the bytes it exchanged. A non-empty return is a
// harness-visible failure of the prelude itself.
func (c *Conn) Prelude(kind string) string {
	if kind == "" {
		return ""
	}
	msg := ""
	// "idle": the client has only been connected, long ago (longer than the handshake
	// time-out); "ok+idle": an earlier query under a 10 s context ended well, and that
	// deadline has passed since
	idle := time.Duration(0)
	switch kind {
	case "idle":
		vsched.Quiet(func() { simnet.Gap(6 * time.Minute) })
		return ""
	case "ok+idle":
		kind, idle = "ok", 11*time.Second
	}
	defer func() {
		if idle > 0 && msg == "" {
			vsched.Quiet(func() { simnet.Gap(idle) })
		}
	}()
	vsched.Quiet(func() {
		before := c.C.OutLen()
		reply := EOS()
		if kind == "exception" {
			reply = c.W.Exception(refwire.Exception{Code: 60, Name: "DB::Exception", Message: "Table default.prelude doesn't exist", Stack: "stack"})
		}
		vsched.Go("prelude-peer", func() {
			closed := false
			c.C.Await(func(o []byte, cl bool) bool {
				if cl {
					closed = true
					return true
				}
				pk, _, err := ParseClient(o[before:], c.W)
				return err != nil || len(pk) >= 2
			})
			if !closed {
				c.C.Deliver(reply)
			}
		})
		ctx, cancel := context.WithTimeout(context.Background(), 10*time.Second)
		err := c.Cl.Do(ctx, ch.Query{Body: "SELECT * FROM prelude", QueryID: "prelude"})
		cancel()
		switch {
		case kind == "ok" && err != nil:
			msg = fmt.Sprintf("prelude query failed: %v", err)
		case kind == "exception" && !ch.IsException(err):
			msg = fmt.Sprintf("prelude query: want a server exception, got %v", err)
		case c.Cl.IsClosed():
			msg = "client closed after the prelude query"
		}
		c.HsLen = c.C.OutLen()
		c.HsIn = c.C.Consumed()
	})
	return msg
}

// ProbeResult is what the post-failure probe observed.
type ProbeResult struct {
	Key, Detail string
	Obs         string
}

// Probe checks the C04 post-condition on a client whose Do returned an error (or nil):
// closed => every further call is rejected without touching the connection; open => the
// client stream so far is whole packets, a Ping writes exactly its own byte and succeeds,
// and a following query is written cleanly too. Runs as a quiet region.
func (c *Conn) Probe(scn string) (pr ProbeResult) {
	vsched.Quiet(func() {
		cl := c.Cl
		// the probe runs on a healthy transport: a write fault that has not bitten during the
		// failed query must not bite the probe's own request instead
		c.C.ClearWriteFault()
		if cl.IsClosed() {
			if !c.C.IsClosed() {
				pr.Key, pr.Detail = scn+"/closed-client-open-conn", "client reports closed but the connection was never closed"
				return
			}
			calls := len(c.C.AfterClose())
			e1 := cl.Ping(context.Background())
			e2 := cl.Do(context.Background(), ch.Query{Body: "SELECT 1", QueryID: "probe"})
			e3 := cl.Close()
			if !errors.Is(e1, ch.ErrClosed) || !errors.Is(e2, ch.ErrClosed) || !errors.Is(e3, ch.ErrClosed) {
				pr.Key, pr.Detail = scn+"/closed-client-accepts-call", fmt.Sprintf("on a closed client Ping=%v Do=%v Close=%v, want ErrClosed", e1, e2, e3)
				return
			}
			if n := len(c.C.AfterClose()); n != calls {
				pr.Key, pr.Detail = scn+"/closed-client-touches-conn", fmt.Sprintf("calls on a closed client reached the connection: %v", c.C.AfterClose()[calls:])
				return
			}
			pr.Obs = "closed"
			return
		}
		// open: the client stream must be whole packets
		out := c.C.Snapshot()
		if _, rest, err := ParseClient(out[c.HsLen:], c.W); err != nil || rest != len(out)-c.HsLen {
			pr.Key = scn + "/open-client-mid-packet"
			pr.Detail = fmt.Sprintf("client stays open but its output stops inside a packet (parsed %d of %d bytes, err=%v)", rest, len(out)-c.HsLen, err)
			_ = cl.Close()
			return
		}
		before := len(out)
		vsched.Go("probe-peer", func() {
			closed := false
			c.C.Await(func(o []byte, cl bool) bool { closed = cl; return cl || len(o) > before })
			if closed {
				return
			}
			c.C.Deliver(Pong())
		})
		ctx, cancel := context.WithTimeout(context.Background(), 10*time.Second)
		perr := cl.Ping(ctx)
		cancel()
		wrote := c.C.Snapshot()[before:]
		if string(wrote) != "\x04" {
			pr.Key = scn + "/stale-writer-bytes"
			pr.Detail = fmt.Sprintf("the first request after the failed query wrote %x instead of 04: bytes encoded for the failed query were sent later", wrote)
			_ = cl.Close()
			return
		}
		if perr != nil {
			pr.Key = scn + "/probe-ping-failed"
			pr.Detail = fmt.Sprintf("client stays open but Ping fails: %v (unread server bytes: %d)", perr, c.C.Pending())
			_ = cl.Close()
			return
		}
		// second probe: a whole query
		before2 := c.C.OutLen()
		vsched.Go("probe-peer2", func() {
			closed := false
			c.C.Await(func(o []byte, cl bool) bool {
				if cl {
					closed = true
					return true
				}
				pk, _, err := ParseClient(o[before2:], c.W)
				return err != nil || len(pk) >= 2
			})
			if closed {
				return
			}
			c.C.Deliver(EOS())
		})
		ctx2, cancel2 := context.WithTimeout(context.Background(), 10*time.Second)
		derr := cl.Do(ctx2, ch.Query{Body: "SELECT 1", QueryID: "probe"})
		cancel2()
		w2 := c.C.Snapshot()[before2:]
		pk, rest, err := ParseClient(w2, c.W)
		if err != nil || rest != len(w2) || len(pk) != 2 || pk[0].Code != refwire.ClientQueryCode || pk[0].Query.ID != "probe" || pk[1].Code != refwire.ClientDataCode || len(pk[1].Cols) != 0 {
			pr.Key = scn + "/probe-query-malformed"
			pr.Detail = fmt.Sprintf("query after the failed one wrote %x (packets %v, err %v)", w2, pk, err)
			_ = cl.Close()
			return
		}
		if derr != nil {
			pr.Key = scn + "/probe-query-failed"
			pr.Detail = fmt.Sprintf("query after the failed one returns %v", derr)
			_ = cl.Close()
			return
		}
		pr.Obs = "open-ok"
		_ = cl.Close()
	})
	return pr
}

// failing callback helper: returns an error on the n-th call (1-based), 0 = never.
type failAt struct {
	mu       sync.Mutex // callbacks run on the sender and on the receiver goroutine
	n, calls int
	// exc: the callback's error wraps a *ch.Exception of its own (e.g. it ran a query on
	// another client and passes that query's failure on)
	exc bool
}

var errCallback = errors.New("callback-fail")

// errCallbackExc: a callback failure whose chain contains a server exception that has
// nothing to do with the connection the callback runs on.
var errCallbackExc = fmt.Errorf("nested query in callback: %w (%w)", &ch.Exception{Code: proto.ErrUnknownTable, Name: "DB::Exception", Message: "from another client"}, errCallback)

func (f *failAt) hit() error {
	f.mu.Lock()
	defer f.mu.Unlock()
	f.calls++
	if f.n != 0 && f.calls == f.n {
		if f.exc {
			return errCallbackExc
		}
		return errCallback
	}
	return nil
}
