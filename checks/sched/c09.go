//go:build go1.25

package sched

import (
	"context"
	"errors"
	"fmt"
	"io"
	"strings"

	ch "github.com/ClickHouse/ch-go"
	"github.com/ClickHouse/ch-go/proto"

	"verif/refcol"
	"verif/refwire"
	"verif/vk"
	"verif/vrt/vsched"
)

// sCol adapts one input column type to the history alphabet: the logical content of a
// column is a list of small integers; each adapter maps an integer to a library value
// and to the reference wire value.
type sCol struct {
	name   string
	typ    string // type the reference server announces in the schema block
	mk     func() proto.ColInput
	app    func(c proto.ColInput, v int)
	set    func(c proto.ColInput, row, v int) bool // in-place overwrite (false: not possible)
	reset  func(c proto.ColInput)
	ref    func(v int) any
	ctype  string // type the client must announce for the column in its blocks
	unique int    // value space (for LowCardinality small so that dictionaries repeat)
}

func sCols() []sCol {
	fs := func(v int) []byte { return []byte(fmt.Sprintf("%04d", v%10000)) }
	return []sCol{
		{name: "u", typ: "UInt64", ctype: "UInt64", mk: func() proto.ColInput { return new(proto.ColUInt64) },
			app:   func(c proto.ColInput, v int) { c.(*proto.ColUInt64).Append(uint64(v) << 33) },
			set:   func(c proto.ColInput, row, v int) bool { (*c.(*proto.ColUInt64))[row] = uint64(v) << 33; return true },
			reset: func(c proto.ColInput) { c.(*proto.ColUInt64).Reset() },
			ref:   func(v int) any { return U64(uint64(v) << 33) }},
		{name: "f", typ: "FixedString(4)", ctype: "FixedString(4)", mk: func() proto.ColInput { return &proto.ColFixedStr{Size: 4} },
			app:   func(c proto.ColInput, v int) { c.(*proto.ColFixedStr).Append(fs(v)) },
			set:   func(c proto.ColInput, row, v int) bool { copy(c.(*proto.ColFixedStr).Buf[row*4:], fs(v)); return true },
			reset: func(c proto.ColInput) { c.(*proto.ColFixedStr).Reset() },
			ref:   func(v int) any { return fs(v) }},
		{name: "s", typ: "String", ctype: "String", mk: func() proto.ColInput { return new(proto.ColStr) },
			app: func(c proto.ColInput, v int) { c.(*proto.ColStr).Append(fmt.Sprintf("str-%d", v)) },
			set: func(c proto.ColInput, row, v int) bool {
				cs := c.(*proto.ColStr)
				p := cs.Pos[row]
				nv := fmt.Sprintf("str-%d", v)
				if p.End-p.Start != len(nv) {
					return false
				}
				copy(cs.Buf[p.Start:p.End], nv)
				return true
			},
			reset: func(c proto.ColInput) { c.(*proto.ColStr).Reset() },
			ref:   func(v int) any { return S(fmt.Sprintf("str-%d", v)) }},
		{name: "l", typ: "LowCardinality(String)", ctype: "LowCardinality(String)", unique: 3,
			mk:  func() proto.ColInput { return proto.NewLowCardinality[string](new(proto.ColStr)) },
			app: func(c proto.ColInput, v int) { c.(*proto.ColLowCardinality[string]).Append(fmt.Sprintf("key%d", v%3)) },
			set: func(c proto.ColInput, row, v int) bool {
				c.(*proto.ColLowCardinality[string]).Values[row] = fmt.Sprintf("key%d", v%3)
				return true
			},
			reset: func(c proto.ColInput) { c.(*proto.ColLowCardinality[string]).Reset() },
			ref:   func(v int) any { return S(fmt.Sprintf("key%d", v%3)) }},
		{name: "a", typ: "Array(String)", ctype: "Array(String)", mk: func() proto.ColInput { return proto.NewArray[string](new(proto.ColStr)) },
			app: func(c proto.ColInput, v int) {
				var row []string
				for i := 0; i < v%3; i++ {
					row = append(row, fmt.Sprintf("e%d.%d", v, i))
				}
				c.(*proto.ColArr[string]).Append(row)
			},
			set:   func(c proto.ColInput, row, v int) bool { return false },
			reset: func(c proto.ColInput) { c.(*proto.ColArr[string]).Reset() },
			ref: func(v int) any {
				row := []any{}
				for i := 0; i < v%3; i++ {
					row = append(row, S(fmt.Sprintf("e%d.%d", v, i)))
				}
				return row
			}},
		{name: "e", typ: "Enum8('zero' = 0, 'one' = 1, 'two' = 2)", ctype: "Enum8('zero' = 0, 'one' = 1, 'two' = 2)", unique: 3,
			mk:  func() proto.ColInput { return new(proto.ColEnum) },
			app: func(c proto.ColInput, v int) { c.(*proto.ColEnum).Append([]string{"zero", "one", "two"}[v%3]) },
			set: func(c proto.ColInput, row, v int) bool {
				c.(*proto.ColEnum).Values[row] = []string{"zero", "one", "two"}[v%3]
				return true
			},
			reset: func(c proto.ColInput) { c.(*proto.ColEnum).Reset() },
			ref:   func(v int) any { return []byte{byte(v % 3)} }},
	}
}

// history ops of one callback round
const (
	opAppend1 = iota
	opAppend3
	opResetAppend
	opOverwrite
	opNil
	opEOFWithRows
	opEOFNoRows
	opWrappedEOF
	opError
	opReplaceAppend  // the callback puts NEW column objects (2 rows) into the input slots
	opReplaceEOFRows // new column objects holding one row, then io.EOF
	opReplaceEOF     // new, empty column objects, then io.EOF
	nOps
)

var opNames = [nOps]string{"append1", "append3", "reset+append2", "overwrite", "nil", "eof-with-rows", "reset+eof", "reset+wrapped-eof", "error", "replace+append2", "replace+row+eof", "replace-empty+eof"}

type c09case struct {
	col     int
	two     bool // a second column (UInt64) next to it
	initial int
	ops     []int
	lz4     bool
}

func (k c09case) id() string {
	var n []string
	for _, o := range k.ops {
		n = append(n, opNames[o])
	}
	return fmt.Sprintf("%s/two=%v/initial=%d/lz4=%v/%s", sCols()[k.col].name, k.two, k.initial, k.lz4, strings.Join(n, ","))
}

// model computes the blocks the server must receive and whether Do must fail.
func (k c09case) model() (blocks [][]int, fail bool) {
	next := 1000
	cur := []int{}
	fresh := func() int { next++; return next }
	for i := 0; i < k.initial; i++ {
		cur = append(cur, fresh())
	}
	ops := append(append([]int{}, k.ops...), opEOFNoRows) // every history ends with a clean EOF
	// apply returns (eof, err)
	apply := func(op int) (bool, bool) {
		switch op {
		case opAppend1:
			cur = append(cur, fresh())
		case opAppend3:
			cur = append(cur, fresh(), fresh(), fresh())
		case opResetAppend, opReplaceAppend:
			cur = []int{fresh(), fresh()}
		case opReplaceEOFRows:
			cur = []int{fresh()}
			return true, false
		case opReplaceEOF:
			cur = []int{}
			return true, false
		case opOverwrite:
			for i := range cur {
				cur[i] = fresh()
			}
		case opNil:
		case opEOFWithRows:
			if len(cur) == 0 {
				cur = append(cur, fresh())
			}
			return true, false
		case opEOFNoRows, opWrappedEOF:
			cur = []int{}
			return true, false
		case opError:
			return false, true
		}
		return false, false
	}
	i := 0
	if k.initial == 0 {
		eof, err := apply(ops[i])
		i++
		if err {
			return blocks, true
		}
		if eof {
			if len(cur) > 0 {
				// end-of-input with rows still present: they are the final block
				blocks = append(blocks, append([]int{}, cur...))
			}
			return blocks, false
		}
	}
	for {
		blocks = append(blocks, append([]int{}, cur...))
		eof, err := apply(ops[i])
		i++
		if err {
			return blocks, true
		}
		if eof {
			if len(cur) > 0 {
				blocks = append(blocks, append([]int{}, cur...))
			}
			return blocks, false
		}
	}
}

func body09(k c09case, progress bool) Body {
	return func() Outcome {
		sc := sCols()[k.col]
		opt := ch.Options{}
		if k.lz4 {
			opt.Compression = ch.CompressionLZ4
		}
		c, err := Connect(opt, baseHello)
		if err != nil {
			return Outcome{Key: "C09/handshake-failed", Detail: err.Error()}
		}
		defer vsched.Quiet(func() { _ = c.C.Close() })
		col := sc.mk()
		u := sCols()[0]
		ucol := u.mk()
		next := 1000
		fresh := func() int { next++; return next }
		var cur []int
		appendRow := func(v int) {
			sc.app(col, v)
			if k.two {
				u.app(ucol, v)
			}
			cur = append(cur, v)
		}
		reset := func() {
			sc.reset(col)
			if k.two {
				u.reset(ucol)
			}
			cur = cur[:0]
		}
		for i := 0; i < k.initial; i++ {
			appendRow(fresh())
		}
		ops := append(append([]int{}, k.ops...), opEOFNoRows)
		round := 0
		skipped := false
		q := ch.Query{Body: "INSERT INTO t VALUES", QueryID: "q9", Input: proto.Input{{Name: sc.name, Data: col}}}
		if k.two {
			q.Input = append(q.Input, proto.InputColumn{Name: "u2", Data: ucol})
		}
		replace := func() {
			// fresh column objects in the input slots (how value-type columns and pre-built
			// batches are streamed); the old objects keep their rows
			col = sc.mk()
			if inf, ok := col.(proto.Inferable); ok {
				_ = inf.Infer(proto.ColumnType(sc.typ)) // the caller prepares its own new column
			}
			q.Input[0].Data = col
			if k.two {
				ucol = u.mk()
				q.Input[1].Data = ucol
			}
			cur = cur[:0]
		}
		ended := false
		onInput := func(ctx context.Context) error {
			if ended {
				// the source is exhausted (it said so): like an io.Reader at EOF it leaves the
				// columns alone and reports the end again, however often it is asked
				return io.EOF
			}
			op := ops[round]
			round++
			switch op {
			case opReplaceAppend:
				replace()
				appendRow(fresh())
				appendRow(fresh())
			case opReplaceEOFRows:
				replace()
				appendRow(fresh())
				return io.EOF
			case opReplaceEOF:
				replace()
				return io.EOF
			case opAppend1:
				appendRow(fresh())
			case opAppend3:
				appendRow(fresh())
				appendRow(fresh())
				appendRow(fresh())
			case opResetAppend:
				reset()
				appendRow(fresh())
				appendRow(fresh())
			case opOverwrite:
				for i := range cur {
					v := fresh()
					if !sc.set(col, i, v) {
						skipped = true
						return errCallback
					}
					if k.two {
						u.set(ucol, i, v)
					}
					cur[i] = v
				}
			case opNil:
			case opEOFWithRows:
				if len(cur) == 0 {
					appendRow(fresh())
				}
				return io.EOF
			case opEOFNoRows:
				reset()
				return io.EOF
			case opWrappedEOF:
				reset()
				return fmt.Errorf("source drained: %w", io.EOF)
			case opError:
				return errCallback
			}
			return nil
		}
		q.OnInput = func(ctx context.Context) error {
			err := onInput(ctx)
			if err != nil {
				ended = true
			}
			return err
		}
		schema := []refcol.BlockCol{Col(sc.name, sc.typ)}
		if k.two {
			schema = append(schema, Col("u2", "UInt64"))
		}
		steps := []Step{{Name: "await-query", AwaitN: 2}, {Name: "schema", Send: c.W.Data(0, schema...)}}
		if progress {
			steps = append(steps, Step{Name: "progress", Send: c.W.Progress(refwire.Progress{WroteRows: 1})}, Step{Name: "progress", Send: c.W.Progress(refwire.Progress{WroteRows: 2})})
		}
		wantBlocks, wantFail := k.model()
		// the server finishes when the empty terminator block arrives, however many blocks came
		steps = append(steps, Step{Name: "await-terminator", AwaitFn: func(pk []CPacket) bool {
			return len(pk) >= 3 && pk[len(pk)-1].Code == refwire.ClientDataCode && len(pk[len(pk)-1].Cols) == 0
		}}, Step{Name: "eos", Send: EOS()})
		c.RunPeer("peer", c.HsLen, steps, nil)
		derr := c.Cl.Do(context.Background(), q)
		out := c.C.Snapshot()[c.HsLen:]
		vsched.Quiet(func() { _ = c.Cl.Close() })
		if skipped {
			return Outcome{Obs: "overwrite-not-applicable"}
		}
		pk, rest, perr := ParseClient(out, c.W)
		// after a failed query a trailing partial packet / Cancel is tolerated; what was sent
		// before must be whole packets
		if perr != nil && !wantFail {
			return Outcome{Key: "C09/stream-malformed", Detail: fmt.Sprintf("client output does not parse: %v (%d of %d bytes)", perr, rest, len(out))}
		}
		if wantFail {
			if derr == nil {
				return Outcome{Key: "C09/callback-error-swallowed", Detail: "OnInput returned an error but Do returned nil"}
			}
			if !errors.Is(derr, errCallback) {
				return Outcome{Key: "C09/callback-error-lost", Detail: fmt.Sprintf("OnInput's error cannot be recovered from %v", derr)}
			}
		} else if derr != nil {
			return Outcome{Key: "C09/do-failed", Detail: fmt.Sprintf("streamed insert failed: %v", derr)}
		}
		// data packets after Query and the external-data terminator
		var data []CPacket
		for i, p := range pk {
			if i < 2 {
				continue
			}
			if p.Code != refwire.ClientDataCode {
				if p.Code == refwire.ClientCancelCode && wantFail {
					continue
				}
				return Outcome{Key: "C09/unexpected-packet", Detail: fmt.Sprintf("packet %d is %v", i, p)}
			}
			data = append(data, p)
		}
		showBlocks := func() string {
			var sb strings.Builder
			for _, p := range data {
				if len(p.Cols) == 0 {
					sb.WriteString("[blank] ")
					continue
				}
				sb.WriteString(refcol.Show(p.Cols[0].Vals) + " ")
			}
			return sb.String()
		}
		wantN := len(wantBlocks) + 1
		if wantFail {
			// a prefix of the expected blocks, no terminator
			if len(data) > len(wantBlocks) {
				return Outcome{Key: "C09/sent-after-callback-error", Detail: fmt.Sprintf("after the callback failed the client still sent blocks: %s (expected at most %d blocks)", showBlocks(), len(wantBlocks))}
			}
		} else if len(data) != wantN {
			cls := "too-few"
			if len(data) > wantN {
				cls = "too-many"
			}
			return Outcome{Key: "C09/block-count/" + cls, Detail: fmt.Sprintf("server received %d data packets, the model expects %d blocks + 1 terminator: %s", len(data), len(wantBlocks), showBlocks())}
		}
		for i, p := range data {
			if i == len(wantBlocks) {
				if len(p.Cols) != 0 || p.Rows != 0 {
					return Outcome{Key: "C09/terminator", Detail: fmt.Sprintf("last data packet is not the empty terminator: %v", p)}
				}
				break
			}
			wb := wantBlocks[i]
			ncols := 1
			if k.two {
				ncols = 2
			}
			if len(p.Cols) != ncols || p.Rows != len(wb) {
				return Outcome{Key: "C09/block-shape", Detail: fmt.Sprintf("block %d: %d columns x %d rows, want %d x %d (%s)", i, len(p.Cols), p.Rows, ncols, len(wb), showBlocks())}
			}
			if p.Cols[0].Name != sc.name || p.Cols[0].Type.Name != sc.ctype {
				return Outcome{Key: "C09/block-header", Detail: fmt.Sprintf("block %d column 0 is %q %q, want %q %q", i, p.Cols[0].Name, p.Cols[0].Type.Name, sc.name, sc.ctype)}
			}
			for r, v := range wb {
				if !refcol.Equal(p.Cols[0].Vals[r], sc.ref(v)) {
					return Outcome{Key: "C09/block-values/" + sc.name, Detail: fmt.Sprintf("block %d row %d of %q is %s, the column held %s when that round began (blocks: %s)", i, r, sc.name, refcol.Show(p.Cols[0].Vals[r]), refcol.Show(sc.ref(v)), showBlocks())}
				}
				if k.two && !refcol.Equal(p.Cols[1].Vals[r], u.ref(v)) {
					return Outcome{Key: "C09/block-values/second-column", Detail: fmt.Sprintf("block %d row %d of the second column is %s want %s", i, r, refcol.Show(p.Cols[1].Vals[r]), refcol.Show(u.ref(v)))}
				}
			}
		}
		return Outcome{Obs: fmt.Sprintf("blocks=%d fail=%v", len(wantBlocks), wantFail)}
	}
}

// C09 — streamed INSERT sends one faithful block per input round, then a terminator.
func C09(c *vk.Ctx) {
	c.Rule("all OnInput histories of <= n rounds (quick 3, thorough 4) over {append 1, append 3, Reset+append 2, overwrite every row in place, return nil unchanged, io.EOF with rows, Reset+io.EOF, Reset+wrapped io.EOF, other error, NEW column objects put into the input slots with 2 rows, with 1 row + io.EOF, empty + io.EOF} (each history is closed by Reset+io.EOF; a callback that has reported the end or an error answers any further call with io.EOF and leaves the columns alone) x initial rows {0, 2; 30000 (a first block of 240 KB and more) for histories of <= 2 rounds over UInt64 / String / LowCardinality(String)} x column {UInt64, FixedString(4), String, LowCardinality(String), Array(String), Enum8 via ColEnum}, alone or next to a UInt64 column, x {plain, LZ4}; every case is one execution of the real Connect + Do on the default schedule (thorough: plus all schedules up to 1 preemption while the server sends Progress). Oracle: the blocks parsed from the client stream by the reference model equal the model's snapshots of the column contents at the start of each round, followed by exactly one empty block. distinct_nontrivial = cases.")
	quick := c.Quick()
	maxLen := 3
	if !quick {
		maxLen = 4
	}
	var hist [][]int
	var rec func(pre []int)
	rec = func(pre []int) {
		hist = append(hist, append([]int{}, pre...))
		if len(pre) == maxLen {
			return
		}
		// nothing follows an EOF or an error
		if n := len(pre); n > 0 && pre[n-1] >= opEOFWithRows {
			return
		}
		for o := 0; o < nOps; o++ {
			rec(append(pre, o))
		}
	}
	rec(nil)
	nc := len(sCols())
	for ci := 0; ci < nc; ci++ {
		for _, two := range []bool{false, true} {
			for _, initial := range []int{0, 2, 30000} {
				for _, lz4 := range []bool{false, true} {
					for _, h := range hist {
						if initial > 2 && (len(h) > 2 || (ci != 0 && ci != 2 && ci != 3)) {
							continue // large first block: histories of <= 2 rounds, UInt64 / String / LowCardinality
						}
						k := c09case{col: ci, two: two, initial: initial, ops: h, lz4: lz4}
						id := k.id()
						if !c.Next(id) {
							continue
						}
						c.Current(id)
						x := RunOnce(nil, c.Only != "", body09(k, false))
						e := &Explorer{Scenario: id, KeyBase: "C09/engine"}
						key, detail := e.verdict(&x)
						c.Eval("history x column x compression", 1)
						c.AddStates(1, int64(x.Steps), 1)
						c.DistinctN(1)
						c.Outcome(x.Out.Obs)
						if key != "" {
							c.Violation(key, id, detail, nil)
						}
						if c.Only != "" {
							fmt.Printf("replay %s: key=%q %s\n", id, key, detail)
						}
					}
				}
			}
		}
	}
	if !quick && c.Only == "" {
		// schedules: the server reports progress while the client streams
		n := int64(0)
		for ci := 0; ci < nc; ci++ {
			for _, h := range [][]int{{opResetAppend, opOverwrite}, {opOverwrite, opAppend1}, {opAppend3, opEOFWithRows}} {
				k := c09case{col: ci, initial: 2, ops: h}
				n++
				if !c.Mine(n) {
					continue
				}
				e := &Explorer{C: c, Scenario: "sched:" + k.id(), KeyBase: "C09/sched", Body: body09(k, true)}
				st := e.Run(1)
				Account(c, "schedules (progress while streaming)", st)
				c.DistinctN(st.Executions)
			}
		}
	}
	k := c09case{col: 1, initial: 2, ops: []int{opOverwrite, opAppend1}}
	wb, _ := k.model()
	c.Sample(map[string]any{"case": k.id(), "expected_blocks_as_logical_values": wb, "then": "one empty terminator block"})
}
