//go:build go1.25

package sched

import (
	"encoding/binary"
	"fmt"

	"verif/refcol"
	"verif/refwire"
)

// Wire describes the negotiated connection parameters the reference model needs.
type Wire struct {
	Rev        int  // negotiated revision = min(client, server)
	Compressed bool // block compression enabled
	Method     byte // frame method the reference peer uses for its own blocks
}

// ---- server packet builders (reference model, not the library) ----

func U64(v uint64) []byte { return binary.LittleEndian.AppendUint64(nil, v) }
func S(s string) []byte   { return []byte(s) }

func Col(name, typ string, vals ...any) refcol.BlockCol {
	return refcol.BlockCol{Name: name, Type: refcol.MustParse(typ), Vals: vals}
}

func (w Wire) block(code uint64, compressible bool, rows int, cols []refcol.BlockCol) []byte {
	var out refwire.W
	refwire.DataHeader(&out, code, "", w.Rev)
	var body refwire.W
	info := refwire.BlockInfo{BucketNum: -1}
	refcol.EncodeBlockBody(&body, w.Rev, info, rows, cols)
	if w.Compressed && compressible {
		m := w.Method
		if m == 0 {
			m = refwire.MethodLZ4
		}
		out.Raw(refwire.Compress(m, body.B))
	} else {
		out.Raw(body.B)
	}
	return out.B
}

// RawData builds a Data packet from literal column bodies (for undecodable blocks).
func (w Wire) RawData(rows int, cols ...refwire.Column) []byte {
	var out refwire.W
	refwire.DataHeader(&out, refwire.ServerDataCode, "", w.Rev)
	var body refwire.W
	refwire.Block{Info: refwire.BlockInfo{BucketNum: -1}, Rows: rows, Columns: cols}.EncodeBody(&body, w.Rev)
	if w.Compressed {
		out.Raw(refwire.Compress(refwire.MethodLZ4, body.B))
	} else {
		out.Raw(body.B)
	}
	return out.B
}

func (w Wire) Data(rows int, cols ...refcol.BlockCol) []byte {
	return w.block(refwire.ServerDataCode, true, rows, cols)
}
func (w Wire) Totals(rows int, cols ...refcol.BlockCol) []byte {
	return w.block(refwire.ServerTotalsCode, true, rows, cols)
}
func (w Wire) EndBlock() []byte { return w.block(refwire.ServerDataCode, true, 0, nil) }

func (w Wire) Exception(chain ...refwire.Exception) []byte {
	var out refwire.W
	refwire.EncodeExceptionChain(&out, chain)
	return out.B
}

func (w Wire) Progress(p refwire.Progress) []byte {
	var out refwire.W
	out.UVarint(refwire.ServerProgressCode)
	p.EncodeBody(&out, w.Rev)
	return out.B
}

func (w Wire) Profile(p refwire.Profile) []byte {
	var out refwire.W
	out.UVarint(refwire.ServerProfileCode)
	p.EncodeBody(&out)
	return out.B
}

func (w Wire) TableColumns(t refwire.TableColumns) []byte {
	var out refwire.W
	out.UVarint(refwire.ServerTableColumnsCode)
	t.EncodeBody(&out)
	return out.B
}

func Pong() []byte { return []byte{refwire.ServerPongCode} }
func EOS() []byte  { return []byte{refwire.ServerEndOfStreamCode} }

// LogRow / EventRow are the reference forms of server log and profile-event rows.
type LogRow struct {
	Time     uint32
	Micro    uint32
	Host     string
	QueryID  string
	ThreadID uint64
	Priority int8
	Source   string
	Text     string
}

func u32(v uint32) []byte { return binary.LittleEndian.AppendUint32(nil, v) }

func (w Wire) Log(rows ...LogRow) []byte {
	cols := []refcol.BlockCol{Col("event_time", "DateTime"), Col("event_time_microseconds", "UInt32"), Col("host_name", "String"),
		Col("query_id", "String"), Col("thread_id", "UInt64"), Col("priority", "Int8"), Col("source", "String"), Col("text", "String")}
	for _, r := range rows {
		cols[0].Vals = append(cols[0].Vals, u32(r.Time))
		cols[1].Vals = append(cols[1].Vals, u32(r.Micro))
		cols[2].Vals = append(cols[2].Vals, S(r.Host))
		cols[3].Vals = append(cols[3].Vals, S(r.QueryID))
		cols[4].Vals = append(cols[4].Vals, U64(r.ThreadID))
		cols[5].Vals = append(cols[5].Vals, []byte{byte(r.Priority)})
		cols[6].Vals = append(cols[6].Vals, S(r.Source))
		cols[7].Vals = append(cols[7].Vals, S(r.Text))
	}
	return w.block(refwire.ServerLogCode, false, len(rows), cols)
}

type EventRow struct {
	Host     string
	Time     uint32
	ThreadID uint64
	Type     int8
	Name     string
	Value    int64
}

func (w Wire) ProfileEvents(rows ...EventRow) []byte {
	valType := "Int64"
	cols := []refcol.BlockCol{Col("host_name", "String"), Col("current_time", "DateTime"), Col("thread_id", "UInt64"),
		Col("type", "Int8"), Col("name", "String"), Col("value", valType)}
	for _, r := range rows {
		cols[0].Vals = append(cols[0].Vals, S(r.Host))
		cols[1].Vals = append(cols[1].Vals, u32(r.Time))
		cols[2].Vals = append(cols[2].Vals, U64(r.ThreadID))
		cols[3].Vals = append(cols[3].Vals, []byte{byte(r.Type)})
		cols[4].Vals = append(cols[4].Vals, S(r.Name))
		cols[5].Vals = append(cols[5].Vals, U64(uint64(r.Value)))
	}
	return w.block(refwire.ServerProfileEventsCode, false, len(rows), cols)
}

func ServerHello(h refwire.ServerHello, clientRev int) []byte {
	var out refwire.W
	h.Encode(&out, clientRev)
	return out.B
}

// ---- client stream parser ----

// CPacket is one parsed client packet.
type CPacket struct {
	Code       int
	Start, End int // byte range within the parsed stream
	Query      *refwire.Query
	Table      string
	Rows       int
	Cols       []refcol.BlockCol
	Info       refwire.BlockInfo
	Framed     bool // block was carried in a compression frame
	Method     byte
}

func (p CPacket) String() string {
	switch p.Code {
	case refwire.ClientQueryCode:
		return fmt.Sprintf("Query(%q)", p.Query.ID)
	case refwire.ClientDataCode:
		return fmt.Sprintf("Data(table=%q cols=%d rows=%d framed=%v)", p.Table, len(p.Cols), p.Rows, p.Framed)
	case refwire.ClientCancelCode:
		return "Cancel"
	case refwire.ClientPingCode:
		return "Ping"
	case refwire.ClientHelloCode:
		return "Hello"
	}
	return fmt.Sprintf("code%d", p.Code)
}

// ParseClient parses as many complete client packets as b holds. rest is the offset of
// the first byte not belonging to a complete packet; err != nil means the bytes at rest
// can never become a well-formed packet.
func ParseClient(b []byte, w Wire) (pkts []CPacket, rest int, err error) {
	for rest < len(b) {
		r := refwire.NewR(b[rest:])
		p := CPacket{Start: rest}
		code := r.UVarint()
		p.Code = int(code)
		switch code {
		case refwire.ClientPingCode, refwire.ClientCancelCode:
		case refwire.ClientQueryCode:
			q := refwire.DecodeQueryBody(r, w.Rev)
			p.Query = &q
		case refwire.ClientDataCode:
			if w.Rev >= refwire.RevTempTables {
				p.Table = r.Str()
			}
			if r.Err != nil {
				break
			}
			if w.Compressed {
				f, ferr := refwire.ParseFrame(r.B[r.Pos:])
				if ferr == refwire.ErrFrameShort {
					r.Err = refwire.ErrShort
					break
				}
				if ferr != nil {
					return pkts, rest, fmt.Errorf("data packet at %d: %v", rest, ferr)
				}
				if !f.ChecksumOK {
					return pkts, rest, fmt.Errorf("data packet at %d: frame checksum does not verify", rest)
				}
				payload, derr := f.Decompress()
				if derr != nil {
					return pkts, rest, fmt.Errorf("data packet at %d: %v", rest, derr)
				}
				br := refwire.NewR(payload)
				p.Info, p.Rows, p.Cols = refcol.DecodeBlockBody(br, w.Rev)
				if br.Err != nil {
					return pkts, rest, fmt.Errorf("data packet at %d: block inside frame: %v", rest, br.Err)
				}
				if br.Left() != 0 {
					return pkts, rest, fmt.Errorf("data packet at %d: %d stray bytes inside frame", rest, br.Left())
				}
				p.Framed, p.Method = true, f.Method
				r.Pos += f.Total
			} else {
				p.Info, p.Rows, p.Cols = refcol.DecodeBlockBody(r, w.Rev)
			}
		default:
			return pkts, rest, fmt.Errorf("unknown client packet code %d at offset %d", code, rest)
		}
		if r.Err == refwire.ErrShort {
			return pkts, rest, nil
		}
		if r.Err != nil {
			return pkts, rest, fmt.Errorf("client packet code %d at offset %d: %v", code, rest, r.Err)
		}
		rest += r.Pos
		p.End = rest
		pkts = append(pkts, p)
	}
	return pkts, rest, nil
}
