//go:build go1.25

package sched

import (
	"bytes"
	"context"
	"encoding/binary"
	"fmt"
	"io"
	"strings"
	"time"

	ch "github.com/ClickHouse/ch-go"
	"github.com/ClickHouse/ch-go/proto"
	"go.opentelemetry.io/otel/trace"

	"verif/checks/seq/reg"
	"verif/refcol"
	"verif/refwire"
	"verif/vk"
	"verif/vrt/vsched"
)

// inCol is one input / external-data column: the library column filled as a user would
// fill it, and the same contents as reference values.
type inCol struct {
	name string
	typ  string
	mk   func() proto.ColInput
	vals []any
}

func le16(v uint16) []byte { return []byte{byte(v), byte(v >> 8)} }

var inCols = []inCol{
	{"u", "UInt64", func() proto.ColInput { c := proto.ColUInt64{1, 1 << 40, 0}; return &c }, []any{U64(1), U64(1 << 40), U64(0)}},
	{"s", "String", func() proto.ColInput {
		c := new(proto.ColStr)
		c.Append("a")
		c.Append("")
		c.Append(strings.Repeat("z", 130))
		return c
	}, []any{S("a"), S(""), S(strings.Repeat("z", 130))}},
	{"f", "FixedString(2)", func() proto.ColInput {
		c := &proto.ColFixedStr{Size: 2}
		c.Append([]byte("ab"))
		c.Append([]byte{0, 0xff})
		c.Append([]byte("zz"))
		return c
	}, []any{S("ab"), []byte{0, 0xff}, S("zz")}},
	{"n", "Nullable(String)", func() proto.ColInput {
		c := proto.NewColNullable[string](new(proto.ColStr))
		c.Append(proto.NewNullable("x"))
		c.Append(proto.Null[string]())
		c.Append(proto.NewNullable(""))
		return c
	}, []any{S("x"), nil, S("")}},
	{"a", "Array(UInt16)", func() proto.ColInput {
		c := proto.NewArray[uint16](new(proto.ColUInt16))
		c.Append([]uint16{1, 2})
		c.Append(nil)
		c.Append([]uint16{65535})
		return c
	}, []any{[]any{le16(1), le16(2)}, []any{}, []any{le16(65535)}}},
	{"l", "LowCardinality(String)", func() proto.ColInput {
		c := proto.NewLowCardinality[string](new(proto.ColStr))
		c.Append("k1")
		c.Append("k2")
		c.Append("k1")
		return c
	}, []any{S("k1"), S("k2"), S("k1")}},
	{"m", "Map(String, UInt64)", func() proto.ColInput {
		c := proto.NewMap[string, uint64](new(proto.ColStr), new(proto.ColUInt64))
		c.AppendKV([]proto.KV[string, uint64]{{Key: "a", Value: 1}, {Key: "b", Value: 2}})
		c.AppendKV(nil)
		c.AppendKV([]proto.KV[string, uint64]{{Key: "c", Value: 3}})
		return c
	}, []any{[]refcol.KV{{K: S("a"), V: U64(1)}, {K: S("b"), V: U64(2)}}, []refcol.KV{}, []refcol.KV{{K: S("c"), V: U64(3)}}}},
	{"d", "DateTime", func() proto.ColInput {
		c := new(proto.ColDateTime)
		c.Append(time.Unix(0, 0))
		c.Append(time.Unix(1700000000, 0))
		c.Append(time.Unix(4294967295, 0))
		return c
	}, []any{u32(0), u32(1700000000), u32(4294967295)}},
}

// glueCols builds further input columns through the reflection glue: three boundary values
// each, reference values = the glue's canonical form.
func glueCols() []inCol {
	ctors := []struct {
		name string
		mk   func() proto.Column
	}{
		{"i8", func() proto.Column { return new(proto.ColInt8) }},
		{"i64", func() proto.Column { return new(proto.ColInt64) }},
		{"u128", func() proto.Column { return new(proto.ColUInt128) }},
		{"i256", func() proto.Column { return new(proto.ColInt256) }},
		{"f64", func() proto.Column { return new(proto.ColFloat64) }},
		{"b", func() proto.Column { return new(proto.ColBool) }},
		{"uuid", func() proto.Column { return new(proto.ColUUID) }},
		{"ip4", func() proto.Column { return new(proto.ColIPv4) }},
		{"ip6", func() proto.Column { return new(proto.ColIPv6) }},
		{"dt", func() proto.Column { return new(proto.ColDate) }},
		{"dt32", func() proto.Column { return new(proto.ColDate32) }},
		{"dt64", func() proto.Column { return new(proto.ColDateTime64).WithPrecision(3) }},
		{"dec64", func() proto.Column { return new(proto.ColDecimal64) }},
		{"fs8", func() proto.Column { return new(proto.ColFixedStr8) }},
		{"en", func() proto.Column { return reg.Enum("Enum8('a' = 1, 'b' = 2)") }},
		{"json", func() proto.Column { return new(proto.ColJSONStr) }},
		{"pt", func() proto.Column { return new(proto.ColPoint) }},
		{"nu32", func() proto.Column { return proto.NewColNullable[uint32](new(proto.ColUInt32)) }},
		{"lcu16", func() proto.Column { return proto.NewLowCardinality[uint16](new(proto.ColUInt16)) }},
		{"aas", func() proto.Column { return proto.NewArray[[]string](proto.NewArray[string](new(proto.ColStr))) }},
		{"alc", func() proto.Column { return proto.NewArray[string](proto.NewLowCardinality[string](new(proto.ColStr))) }},
		{"mas", func() proto.Column {
			return proto.NewMap[string, []string](new(proto.ColStr), proto.NewArray[string](new(proto.ColStr)))
		}},
		{"tup", func() proto.Column { return proto.ColTuple{new(proto.ColStr), new(proto.ColUInt8)} }},
		{"nen", func() proto.Column { return proto.NewColNullable[string](reg.Enum("Enum16('x' = 300, 'y' = -2)")) }},
	}
	var out []inCol
	for _, ct := range ctors {
		ct := ct
		fill := func() (*reg.Col, []any) {
			w, err := reg.Wrap(ct.mk(), ct.name)
			if err != nil {
				panic(err)
			}
			a := w.Alphabet()
			var vals []any
			for i := 0; i < 3; i++ {
				v := a[(i+1)%len(a)]
				w.Append(v)
				vals = append(vals, w.Canon(v))
			}
			return w, vals
		}
		w, vals := fill()
		out = append(out, inCol{ct.name, string(w.C.Type()), func() proto.ColInput { c, _ := fill(); return c.C }, vals})
	}
	return out
}

// bigCols: input blocks of a few hundred KB (pseudo-random, so that no compression method
// shrinks them below the size steps of buffers on the way out).
func bigCols() []inCol {
	const n = 40000
	x := uint64(0x9e3779b97f4a7c15)
	next := func() uint64 { x ^= x << 13; x ^= x >> 7; x ^= x << 17; return x }
	u := make(proto.ColUInt64, n)
	uv := make([]any, n)
	for i := range u {
		u[i] = next()
		uv[i] = U64(u[i])
	}
	const ns = 3000
	strs := make([]string, ns)
	sv := make([]any, ns)
	for i := range strs {
		b := make([]byte, 64)
		for j := 0; j < 64; j += 8 {
			binary.LittleEndian.PutUint64(b[j:], next())
		}
		strs[i] = string(b)
		sv[i] = b
	}
	return []inCol{
		{"bigu", "UInt64", func() proto.ColInput { c := append(proto.ColUInt64{}, u...); return &c }, uv},
		{"bigs", "String", func() proto.ColInput {
			c := new(proto.ColStr)
			for _, s := range strs {
				c.Append(s)
			}
			return c
		}, sv},
	}
}

func init() {
	inCols = append(inCols, glueCols()...)
	inCols = append(inCols, bigCols()...)
	q02Alph[10] = len(inCols) + 1
}

// q02 is a point of the query space: every field is an index into its alphabet (0 = base).
type q02 struct {
	f    [14]int
	comp ch.Compression
	rev  int
	// hist: what happened on the client before the query: 0 nothing; 1 a Ping that was refused
	// because its context was already cancelled; 2 a Ping that was answered; 3 a Do that was
	// refused because its context was already cancelled (the client may close itself)
	hist int
}

var q02Alph = [14]int{5, 8, 4, 4, 4, 2, 2, 2, 2, 4, 9, 2, 3, 3}
var q02Names = [14]string{"id", "body", "connset", "qset", "params", "secret", "quota", "optquota", "inituser", "external", "input", "span", "input2", "stream"}

func (k q02) id() string {
	var sb strings.Builder
	for i, v := range k.f {
		if v != 0 {
			fmt.Fprintf(&sb, "%s=%d,", q02Names[i], v)
		}
	}
	if k.hist != 0 {
		fmt.Fprintf(&sb, "hist=%d,", k.hist)
	}
	return fmt.Sprintf("q{%s}/comp=%d/rev=%d", sb.String(), k.comp, k.rev)
}

var longBody = "SELECT '" + strings.Repeat("0123456789abcdef", 70*64) + "'"

func body02(k q02) Body {
	return func() Outcome {
		opt := ch.Options{ProtocolVersion: k.rev, Compression: k.comp}
		var connSet []ch.Setting
		switch k.f[2] {
		case 1:
			connSet = []ch.Setting{{Key: "max_threads", Value: "1", Important: true}}
		case 2:
			connSet = []ch.Setting{{Key: "max_threads", Value: "1", Important: true}, {Key: "b", Value: "x"}}
		case 3:
			connSet = []ch.Setting{{Key: strings.Repeat("k", 128), Value: strings.Repeat("v", 127)}}
		}
		opt.Settings = connSet
		if k.f[7] == 1 {
			opt.QuotaKey = "opt-quota"
		}
		hello := baseHello
		hello.Revision = k.rev
		c, err := Connect(opt, hello)
		if err != nil {
			return Outcome{Key: "C02/handshake-failed", Detail: err.Error()}
		}
		defer vsched.Quiet(func() { _ = c.C.Close() })
		// what the client said about itself in its hello is what it must repeat in client info
		hs := c.C.Snapshot()[:c.HsLen]
		hr := refwire.NewR(hs)
		ch0 := refwire.DecodeClientHello(hr)
		if hr.Err != nil {
			return Outcome{Key: "C02/hello-malformed", Detail: fmt.Sprintf("client hello does not parse: %v (%x)", hr.Err, hs)}
		}
		if c.W.Rev >= refwire.RevAddendum {
			if qk := hr.Str(); hr.Err != nil || qk != opt.QuotaKey || hr.Left() != 0 {
				return Outcome{Key: "C02/addendum", Detail: fmt.Sprintf("after the hello the client wrote %x, want the addendum with quota key %q", hs[hr.Pos:], opt.QuotaKey)}
			}
		} else if hr.Left() != 0 {
			return Outcome{Key: "C02/addendum", Detail: fmt.Sprintf("revision %d has no addendum but the client wrote %x after its hello", c.W.Rev, hs[hr.Pos:])}
		}

		q := ch.Query{QueryID: []string{"q-1", "", strings.Repeat("i", 300), strings.Repeat("j", 127), strings.Repeat("k", 128)}[k.f[0]],
			Body: []string{"SELECT 1", "", longBody, "SELECT '\xff\xfe\x00'", "SELECT '" + strings.Repeat("b", 118) + "'", "SELECT '" + strings.Repeat("b", 119) + "'", "SELECT '" + strings.Repeat("b", 16374) + "'", "SELECT '" + strings.Repeat("b", 16375) + "'"}[k.f[1]]}
		var qSet []ch.Setting
		switch k.f[3] {
		case 1:
			qSet = []ch.Setting{{Key: "c", Value: "2", Important: true}}
		case 2:
			qSet = []ch.Setting{{Key: "max_threads", Value: "8"}, {Key: "d", Value: ""}}
		case 3:
			qSet = []ch.Setting{{Key: strings.Repeat("q", 127), Value: strings.Repeat("w", 128)}}
		}
		q.Settings = qSet
		switch k.f[4] {
		case 1:
			q.Parameters = []proto.Parameter{{Key: "p1", Value: "'v1'"}}
		case 2:
			q.Parameters = []proto.Parameter{{Key: "p1", Value: "'v1'"}, {Key: "p2", Value: ""}}
		case 3:
			q.Parameters = []proto.Parameter{{Key: strings.Repeat("p", 128), Value: "'" + strings.Repeat("x", 126) + "'"}}
		}
		if k.f[5] == 1 {
			q.Secret = "s3cret"
		}
		if k.f[6] == 1 {
			q.QuotaKey = "query-quota"
		}
		if k.f[8] == 1 {
			q.InitialUser = "initial-user"
		}
		type blk struct {
			table string
			cols  []inCol
		}
		var want []blk
		switch k.f[9] {
		case 1:
			q.ExternalData = []proto.InputColumn{{Name: inCols[0].name, Data: inCols[0].mk()}}
			want = append(want, blk{"_data", inCols[:1]})
		case 2:
			q.ExternalTable = "ext"
			q.ExternalData = []proto.InputColumn{{Name: inCols[1].name, Data: inCols[1].mk()}, {Name: inCols[0].name, Data: inCols[0].mk()}}
			want = append(want, blk{"ext", []inCol{inCols[1], inCols[0]}})
		case 3:
			// an external table that happens to be empty: its block (name, column names and
			// types, zero rows) still has to be sent — it declares the table
			empty := func(ic inCol) inCol {
				mk := ic.mk
				return inCol{name: ic.name, typ: ic.typ, vals: []any{}, mk: func() proto.ColInput {
					col := mk()
					col.(interface{ Reset() }).Reset()
					return col
				}}
			}
			e0, e1 := empty(inCols[0]), empty(inCols[1])
			q.ExternalTable = "ext0"
			q.ExternalData = []proto.InputColumn{{Name: e0.name, Data: e0.mk()}, {Name: e1.name, Data: e1.mk()}}
			want = append(want, blk{"ext0", []inCol{e0, e1}})
		}
		want = append(want, blk{"", nil})
		var input []inCol
		if k.f[10] > 0 {
			input = append(input, inCols[k.f[10]-1])
			if k.f[12] == 1 {
				input = append(input, inCols[k.f[10]%len(inCols)])
			} else if k.f[12] == 2 {
				input = append(input, inCols[(k.f[10]+1)%len(inCols)], inCols[(k.f[10]+2)%len(inCols)])
			}
		}
		for _, ic := range input {
			q.Input = append(q.Input, proto.InputColumn{Name: ic.name, Data: ic.mk()})
		}
		if len(input) > 0 && k.f[13] == 2 {
			// input columns present but without rows (an INSERT of nothing): one block with the
			// columns and zero rows, then the terminator
			empty := make([]inCol, len(input))
			for i, in := range q.Input {
				in.Data.(proto.Resettable).Reset()
				empty[i] = inCol{name: input[i].name, typ: input[i].typ}
			}
			want = append(want, blk{"", empty}, blk{"", nil})
		} else if len(input) > 0 {
			want = append(want, blk{"", input})
			if k.f[13] == 1 {
				// streamed: a second round refills the same column objects (Reset + Append of other
				// values), a third call ends the input
				second := make([]inCol, len(input))
				round := 0
				q.OnInput = func(ctx context.Context) error {
					round++
					if round == 2 {
						for _, in := range q.Input {
							in.Data.(proto.Resettable).Reset()
						}
						return io.EOF
					}
					return nil
				}
				for i, in := range q.Input {
					i, in := i, in
					second[i] = inCol{name: input[i].name, typ: input[i].typ}
					w, werr := reg.Wrap(in.Data.(proto.Column), input[i].name)
					if werr != nil {
						return Outcome{Key: "C02/harness", Detail: werr.Error()}
					}
					a := w.Alphabet()
					prev := q.OnInput
					q.OnInput = func(ctx context.Context) error {
						if round == 0 {
							w.C.Reset()
							for j := 0; j < 2; j++ {
								v := a[(i+j+2)%len(a)]
								w.Append(v)
								second[i].vals = append(second[i].vals, w.Canon(v))
							}
						}
						if i == 0 {
							return prev(ctx)
						}
						return prev(ctx)
					}
				}
				want = append(want, blk{"", second})
			}
			want = append(want, blk{"", nil})
		}
		ctx := context.Background()
		var span refwire.Span
		if k.f[11] == 1 {
			ts, _ := trace.ParseTraceState("k1=v1,k2=v2")
			sc := trace.NewSpanContext(trace.SpanContextConfig{
				TraceID: trace.TraceID{1, 2, 3, 4, 5, 6, 7, 8, 9, 10, 11, 12, 13, 14, 15, 16}, SpanID: trace.SpanID{0xa1, 0xa2, 0xa3, 0xa4, 0xa5, 0xa6, 0xa7, 0xa8},
				TraceFlags: trace.FlagsSampled, TraceState: ts})
			ctx = trace.ContextWithSpanContext(ctx, sc)
			span = refwire.Span{Valid: true, TraceID: sc.TraceID(), SpanID: sc.SpanID(), TraceState: "k1=v1,k2=v2", Flags: 1}
		}

		// peer: schema for the input columns, then end of stream
		nPre := 2 // Query + terminator of the external data
		if k.f[9] != 0 {
			nPre++
		}
		steps := []Step{{Name: "await-query", AwaitN: nPre}}
		if len(input) > 0 {
			var sc []refcol.BlockCol
			for _, ic := range input {
				sc = append(sc, Col(ic.name, ic.typ))
			}
			steps = append(steps, Step{Name: "schema", Send: c.W.Data(0, sc...)}, Step{Name: "await-data", AwaitN: 1 + len(want)})
		}
		steps = append(steps, Step{Name: "eos", Send: EOS()})
		switch k.hist {
		case 1, 3:
			dead, cancelDead := context.WithCancel(context.Background())
			cancelDead()
			var herr error
			if k.hist == 1 {
				herr = c.Cl.Ping(dead)
			} else {
				herr = c.Cl.Do(dead, ch.Query{Body: "SELECT 0", QueryID: "refused"})
			}
			if herr == nil {
				return Outcome{Key: "C02/history/cancelled-call-succeeded", Detail: "a call with an already cancelled context returned nil"}
			}
			if c.Cl.IsClosed() {
				return Outcome{Obs: "closed-by-history"}
			}
			if n := c.C.OutLen(); n != c.HsLen {
				return Outcome{Key: "C02/history/refused-call-wrote-bytes", Detail: fmt.Sprintf("a call refused for its cancelled context wrote %x", c.C.Snapshot()[c.HsLen:])}
			}
		case 2:
			before := c.C.OutLen()
			vsched.Go("ping-peer", func() {
				closed := false
				c.C.Await(func(o []byte, cl bool) bool { closed = cl; return cl || len(o) > before })
				if !closed {
					c.C.Deliver(Pong())
				}
			})
			if herr := c.Cl.Ping(context.Background()); herr != nil {
				return Outcome{Key: "C02/history/ping-failed", Detail: herr.Error()}
			}
			c.HsLen = c.C.OutLen()
		}
		c.RunPeer("peer", c.HsLen, steps, nil)
		derr := c.Cl.Do(ctx, q)
		out := c.C.Snapshot()[c.HsLen:]
		vsched.Quiet(func() { _ = c.Cl.Close() })

		if len(q.Parameters) > 0 && c.W.Rev < refwire.RevParameters {
			if derr == nil || len(out) != 0 {
				return Outcome{Key: "C02/parameters-below-revision", Detail: fmt.Sprintf("parameters at revision %d: err=%v, wrote %d bytes; want a refusal before anything is written", c.W.Rev, derr, len(out))}
			}
			return Outcome{Obs: "refused"}
		}
		if derr != nil {
			return Outcome{Key: "C02/do-failed", Detail: fmt.Sprintf("fault-free query failed: %v", derr)}
		}
		pk, rest, perr := ParseClient(out, c.W)
		if perr != nil || rest != len(out) {
			return Outcome{Key: "C02/stream-malformed", Detail: fmt.Sprintf("client output does not parse as packets: err=%v, %d of %d bytes parsed; packets %v", perr, rest, len(out), pk)}
		}
		if len(pk) != 1+len(want) || pk[0].Code != refwire.ClientQueryCode {
			return Outcome{Key: "C02/packet-sequence", Detail: fmt.Sprintf("client wrote %v, want Query + %d data packets", pk, len(want))}
		}
		// ---- Query packet, byte for byte ----
		got := pk[0].Query
		id := q.QueryID
		if id == "" {
			id = got.ID
			if len(id) != 36 {
				return Outcome{Key: "C02/query-id", Detail: fmt.Sprintf("generated query id %q is not a UUID", id)}
			}
		}
		exp := refwire.Query{ID: id, Secret: q.Secret, Stage: 2, Body: q.Body,
			Info: refwire.ClientInfo{QueryKind: 1, InitialUser: q.InitialUser, InitialQueryID: id, InitialAddress: "127.0.0.1:40000", Interface: 1,
				ClientName: ch0.Name, Major: ch0.Major, Minor: ch0.Minor, Revision: c.W.Rev, QuotaKey: q.QuotaKey, Patch: got.Info.Patch, Span: span}}
		if c.W.Compressed {
			exp.Compression = 1
		}
		for _, s := range connSet {
			exp.Settings = append(exp.Settings, refwire.Setting{Key: s.Key, Value: s.Value, Important: s.Important})
		}
		for _, s := range qSet {
			exp.Settings = append(exp.Settings, refwire.Setting{Key: s.Key, Value: s.Value, Important: s.Important})
		}
		for _, p := range q.Parameters {
			exp.Params = append(exp.Params, refwire.Setting{Key: p.Key, Value: p.Value, Custom: true})
		}
		var ew refwire.W
		exp.Encode(&ew, c.W.Rev)
		if !bytes.Equal(ew.B, out[pk[0].Start:pk[0].End]) {
			return Outcome{Key: "C02/query-packet", Detail: fmt.Sprintf("Query packet differs from the reference encoding at revision %d:\n got  %s\n want %s\n parsed %+v", c.W.Rev, vk.Hex(out[pk[0].Start:pk[0].End]), vk.Hex(ew.B), *got)}
		}
		// ---- data packets ----
		for i, w := range want {
			p := pk[1+i]
			where := fmt.Sprintf("data packet %d (%v)", i, p)
			if p.Code != refwire.ClientDataCode || p.Table != w.table {
				return Outcome{Key: "C02/data-packet/table", Detail: fmt.Sprintf("%s: want Data with table %q", where, w.table)}
			}
			if p.Framed != c.W.Compressed {
				return Outcome{Key: "C02/data-packet/framing", Detail: fmt.Sprintf("%s: framed=%v but compression enabled=%v", where, p.Framed, c.W.Compressed)}
			}
			if p.Framed {
				wantM := map[ch.Compression]byte{ch.CompressionLZ4: refwire.MethodLZ4, ch.CompressionLZ4HC: refwire.MethodLZ4, ch.CompressionZSTD: refwire.MethodZSTD, ch.CompressionNone: refwire.MethodNone}[k.comp]
				if p.Method != wantM {
					return Outcome{Key: "C02/data-packet/method", Detail: fmt.Sprintf("%s: frame method %#x, want %#x", where, p.Method, wantM)}
				}
			}
			if p.Info.Overflows {
				return Outcome{Key: "C02/data-packet/info", Detail: where + ": overflows flag set"}
			}
			rows := 0
			if len(w.cols) > 0 {
				rows = len(w.cols[0].vals)
			}
			if len(p.Cols) != len(w.cols) || p.Rows != rows {
				return Outcome{Key: "C02/data-packet/shape", Detail: fmt.Sprintf("%s: %d columns x %d rows, want %d x %d", where, len(p.Cols), p.Rows, len(w.cols), rows)}
			}
			for j, wc := range w.cols {
				gc := p.Cols[j]
				if gc.Name != wc.name || gc.Type.Name != wc.typ {
					return Outcome{Key: "C02/data-packet/column-header", Detail: fmt.Sprintf("%s column %d: %q %q, want %q %q", where, j, gc.Name, gc.Type.Name, wc.name, wc.typ)}
				}
				if !refcol.Equal(gc.Vals, wc.vals) {
					return Outcome{Key: "C02/data-packet/values/" + gc.Type.Base, Detail: fmt.Sprintf("%s column %q: values %s, want %s", where, gc.Name, refcol.Show(gc.Vals), refcol.Show(wc.vals))}
				}
			}
		}
		return Outcome{Obs: fmt.Sprintf("ok packets=%d", len(pk))}
	}
}

// C02 — everything the client writes for a query is a well-formed packet sequence.
func C02(c *vk.Ctx) {
	c.Rule("queries with <= 2 (thorough 4) fields deviating from a base query over per-field alphabets (query id given / generated / 127 / 128 / 300 bytes; body short / empty / 127 / 128 / 16383 / 16384 bytes / 70 KiB / non-UTF-8; setting and parameter keys and values of 127 / 128 bytes; 0..2 connection settings; 0..2 query settings incl. an override and an empty value; 0..2 parameters; secret; query quota key; connection quota key (addendum); initial user; external data none / default table / named table with 2 columns / named table with 2 columns and no rows; input of 1..3 columns, sent as one block, streamed in two rounds through OnInput (Reset + refill of the same column objects) or sent without rows, over 32 column types and two large pseudo-random blocks (40000 x UInt64 = 320 KB, 3000 x 64-byte strings) (integers to 256 bits, floats, Bool, UUID, IPv4/6, dates, DateTime64, Decimal, FixedString, name-based enums that must adopt the server's definition, JSON, Point, Nullable, LowCardinality, nested arrays, Array(LowCardinality), Map(String, Array), Tuple); OpenTelemetry span context) x {Disabled, None, LZ4, LZ4HC, ZSTD} at the newest revision, and queries with <= 1 deviation x every revision of the threshold-neighbour set from 54420 up x {Disabled, LZ4}. plus queries with <= 1 deviation on a client with a history (a Ping or a Do refused for an already cancelled context; an answered Ping). Each case is one execution of the real Connect + Do (default schedule); the recorded client bytes are compared with the reference encoding (Query packet byte for byte; blocks by reference decoding incl. frame checksum). distinct_nontrivial = cases.")
	run := func(k q02, group string) {
		id := k.id()
		if !c.Next(id) {
			return
		}
		c.Current(id)
		x := RunOnce(nil, c.Only != "", body02(k))
		e := &Explorer{Scenario: id, KeyBase: "C02/engine"}
		key, detail := e.verdict(&x)
		c.Eval(group, 1)
		c.DistinctN(1)
		c.Outcome(x.Out.Obs)
		if key != "" {
			c.Violation(key, id, detail, nil)
		}
		if c.Only != "" {
			fmt.Printf("replay %s: key=%q %s\n", id, key, detail)
		}
	}
	comps := []ch.Compression{ch.CompressionDisabled, ch.CompressionNone, ch.CompressionLZ4, ch.CompressionLZ4HC, ch.CompressionZSTD}
	// partition 1: <= 2 deviations x compression, newest revision
	var rec func(k q02, from, left int)
	rec = func(k q02, from, left int) {
		if (k.f[12] != 0 || k.f[13] != 0) && k.f[10] == 0 {
			return // second input column / streaming without a first input column
		}
		if k.f[10] > 0 && k.f[12] != 0 {
			// the columns of one block must have the same number of rows: the large columns
			// only go alone
			n := len(inCols)
			idx := []int{k.f[10] - 1, k.f[10] % n}
			if k.f[12] == 2 {
				idx = []int{k.f[10] - 1, (k.f[10] + 1) % n, (k.f[10] + 2) % n}
			}
			for _, i := range idx {
				if len(inCols[i].vals) != 3 {
					return
				}
			}
		}
		for _, comp := range comps {
			kk := k
			kk.comp, kk.rev = comp, ServerRev
			run(kk, "shape x compression")
		}
		if left == 0 {
			return
		}
		for i := from; i < len(k.f); i++ {
			for v := 1; v < q02Alph[i]; v++ {
				kk := k
				kk.f[i] = v
				rec(kk, i+1, left-1)
			}
		}
	}
	// partition 0: the same on a client with a history (<= 1 deviating field)
	{
		var rech func(k q02, from, left int)
		rech = func(k q02, from, left int) {
			if (k.f[12] != 0 || k.f[13] != 0) && k.f[10] == 0 {
				return
			}
			for _, h := range []int{1, 2, 3} {
				for _, comp := range []ch.Compression{ch.CompressionDisabled, ch.CompressionLZ4} {
					kk := k
					kk.hist, kk.comp, kk.rev = h, comp, ServerRev
					run(kk, "client with a history")
				}
			}
			if left == 0 {
				return
			}
			for i := from; i < len(k.f); i++ {
				if i == 12 {
					continue
				}
				for v := 1; v < q02Alph[i]; v++ {
					kk := k
					kk.f[i] = v
					rech(kk, i+1, left-1)
				}
			}
		}
		rech(q02{}, 0, 1)
	}
	maxDev := 2
	if !c.Quick() {
		maxDev = 4
	}
	rec(q02{}, 0, maxDev)
	// partition 2: <= 1 deviation x revision
	revs := refwire.RevSet(54420, ServerRev)
	var rec2 func(k q02, from, left int)
	rec2 = func(k q02, from, left int) {
		for _, rev := range revs {
			for _, comp := range []ch.Compression{ch.CompressionDisabled, ch.CompressionLZ4} {
				kk := k
				kk.comp, kk.rev = comp, rev
				run(kk, "shape x revision")
			}
		}
		if left == 0 {
			return
		}
		for i := from; i < len(k.f); i++ {
			if i == 12 {
				continue
			}
			for v := 1; v < q02Alph[i]; v++ {
				kk := k
				kk.f[i] = v
				rec2(kk, i+1, left-1)
			}
		}
	}
	rec2(q02{}, 0, 1)
	c.Sample(map[string]any{"case": q02{f: [14]int{0, 0, 1, 2, 0, 0, 0, 0, 0, 0, 0, 0, 0}, comp: ch.CompressionLZ4, rev: ServerRev}.id(),
		"meaning": "connection setting max_threads=1 (important) + query settings max_threads=8, d='' -> Query packet must list them in that order; blocks in one LZ4 frame each"})
}
