//go:build go1.25

package sched

import (
	"context"
	"errors"
	"fmt"
	"net"
	"sort"
	"strings"
	"sync"
	"time"

	ch "github.com/ClickHouse/ch-go"
	"github.com/ClickHouse/ch-go/chpool"

	"verif/refwire"
	"verif/simnet"
	"verif/vk"
	"verif/vrt/vsched"
)

// poolWorld is the simulated server side of a pool scenario: a dialer whose connections
// each get an auto-responding peer, plus the global event log the oracle reads.
type poolWorld struct {
	mu       sync.Mutex
	conns    []*simnet.Conn
	ownAfter map[*simnet.Conn]int // calls after close made by the request that closed the connection itself
	events   []string       // ordered: "<holder>:<what>[:<detail>]"
	queryOn  map[string]int // query id -> connection index that saw it
	maxOpen  int
	maxConns int
	overOpen string
	closeErr bool // the transport's Close tears the connection down but returns an error
}

func (w *poolWorld) ev(format string, a ...any) {
	w.mu.Lock()
	w.events = append(w.events, fmt.Sprintf(format, a...))
	w.mu.Unlock()
}

func (w *poolWorld) DialContext(ctx context.Context, network, addr string) (net.Conn, error) {
	vsched.QuietSticky() // dial + handshake touch only objects private to the new connection
	c := simnet.NewConn()
	if w.closeErr {
		c.CloseErr = errors.New("simnet: close_notify could not be written")
	}
	w.mu.Lock()
	id := len(w.conns)
	w.conns = append(w.conns, c)
	open := 0
	for _, x := range w.conns {
		if !x.IsClosed() {
			open++
		}
	}
	if open > w.maxOpen {
		w.maxOpen = open
	}
	if open > w.maxConns && w.overOpen == "" {
		w.overOpen = fmt.Sprintf("%d connections open after dialling #%d (MaxConns %d)", open, id, w.maxConns)
	}
	w.events = append(w.events, fmt.Sprintf("dial:%d", id))
	w.mu.Unlock()
	wire := Wire{Rev: ServerRev}
	c.Deliver(ServerHello(baseHello, ServerRev))
	vsched.Go(fmt.Sprintf("peer%d", id), func() {
		pos := 0
		hello := false
		for {
			var out []byte
			closed := false
			c.Await(func(o []byte, cl bool) bool {
				if cl {
					closed = true
					return true
				}
				if !hello {
					// handshake: hello + addendum
					r := refwire.NewR(o)
					refwire.DecodeClientHello(r)
					r.Str()
					if r.Err != nil {
						return false
					}
					pos, hello = r.Pos, true
				}
				pk, _, err := ParseClient(o[pos:], wire)
				if err != nil || len(pk) > 0 {
					out = o
					return true
				}
				return false
			})
			if closed {
				return
			}
			pk, rest, err := ParseClient(out[pos:], wire)
			if err != nil {
				w.ev("peer%d:garbage:%v", id, err)
				return
			}
			pos += rest
			for _, p := range pk {
				switch p.Code {
				case refwire.ClientPingCode:
					c.Deliver(Pong())
				case refwire.ClientQueryCode:
					w.mu.Lock()
					w.queryOn[p.Query.ID] = id
					w.mu.Unlock()
					switch {
					case strings.Contains(p.Query.Body, "EXCEPTION"):
						c.Deliver(wire.Exception(excReadonly))
					case strings.Contains(p.Query.Body, "CUT"):
						c.CutRead()
					case strings.Contains(p.Query.Body, "HANG"):
						// never answers: the holder cancels
					default:
						c.Deliver(append(wire.Progress(refwire.Progress{Rows: 1}), EOS()...))
					}
				}
			}
		}
	})
	return c, nil
}

// holder programs
const (
	hOK = iota
	hException
	hTransport
	hCancelled
	hDoubleRelease
	hPoolDo
	hPoolPing
	hTwoQueries
	hStaleRelease
	hPoolPingFail
	hPoolDoFail
	hHoldPastLifetime
	hHoldWhileOtherIdles
	nHolderProgs
)

var holderNames = [nHolderProgs]string{"ok", "exception", "transport-error", "cancelled", "double-release", "pool.Do", "pool.Ping", "two-queries", "stale-release-after-reacquire", "pool.Ping-on-broken-transport", "pool.Do-on-broken-transport", "hold-past-lifetime", "hold-while-other-idles"}

type poolScn struct {
	maxConns int
	progs    []int
	closer   bool          // a thread calling Pool.Close concurrently
	idleWait time.Duration // after the holders: let fake time pass (health check)
	lifetime time.Duration
	idleTime time.Duration
	period   time.Duration
	closeErr bool // connections whose Close reports an unclean teardown
	cycles   int  // stale-release program: acquire / release cycles before the second handle is taken
}

func (s poolScn) id() string {
	if s.cycles > 0 {
		s2 := s
		s2.cycles = 0
		return s2.id() + fmt.Sprintf("/cycles=%d", s.cycles)
	}
	if s.closeErr {
		s2 := s
		s2.closeErr = false
		return s2.id() + "/close-reports-error"
	}
	var p []string
	for _, x := range s.progs {
		p = append(p, holderNames[x])
	}
	return fmt.Sprintf("max=%d/%s/closer=%v/wait=%v", s.maxConns, strings.Join(p, "+"), s.closer, s.idleWait)
}

func bodyPool(s poolScn) Body {
	return func() Outcome {
		name := "C11"
		w := &poolWorld{queryOn: map[string]int{}, ownAfter: map[*simnet.Conn]int{}, maxConns: s.maxConns, closeErr: s.closeErr}
		ctx := context.Background()
		lifetime, idle, period := s.lifetime, s.idleTime, s.period
		if lifetime == 0 {
			lifetime = time.Hour
		}
		if idle == 0 {
			idle = time.Hour
		}
		if period == 0 {
			period = time.Hour
		}
		var p *chpool.Pool
		var err error
		vsched.Quiet(func() {
			p, err = chpool.New(ctx, chpool.Options{ClientOptions: ch.Options{Dialer: w}, MaxConns: int32(s.maxConns),
				MaxConnLifetime: lifetime, MaxConnIdleTime: idle, HealthCheckPeriod: period})
		})
		if err != nil {
			return Outcome{Key: name + "/pool-new-failed", Detail: err.Error()}
		}
		fin := make(chan struct{}, len(s.progs)+1)
		var vmu sync.Mutex
		holding := 0 // holders between Acquire and Release (harness count, never above the true one)
		viol, vdetail := "", ""
		setViol := func(k, d string) {
			vmu.Lock()
			if viol == "" {
				viol, vdetail = k, d
			}
			vmu.Unlock()
		}
		do := func(h string, c interface {
			Do(context.Context, ch.Query) error
		}, qid, body string, qctx context.Context) error {
			var derr error
			vsched.Quiet(func() { derr = c.Do(qctx, ch.Query{QueryID: qid, Body: body}) })
			return derr
		}
		holder := func(h string, prog int) {
			defer func() { fin <- struct{}{} }()
			defer func() {
				if r := recover(); r != nil {
					setViol(name+"/panic/"+holderNames[prog], fmt.Sprintf("holder %s (%s) panicked: %v", h, holderNames[prog], r))
				}
			}()
			switch prog {
			case hPoolDo:
				w.ev("%s:pooldo", h)
				var derr error
				vsched.Quiet(func() { derr = p.Do(ctx, ch.Query{QueryID: h + "-q1", Body: "SELECT 1"}) })
				w.ev("%s:pooldo-done:%s", h, errClass(derr))
				return
			case hPoolPing:
				var perr error
				vsched.Quiet(func() { perr = p.Ping(ctx) })
				w.ev("%s:poolping-done:%s", h, errClass(perr))
				return
			}
			if prog == hPoolPingFail || prog == hPoolDoFail {
				// the transport of every open connection breaks while it is idle; the next pool-level
				// request fails on its first write (the client closes itself); whoever acquires next
				// must get a working connection
				var e0, e1 error
				vsched.Quiet(func() {
					e0 = p.Ping(ctx) // makes sure an idle connection exists
					w.mu.Lock()
					conns := append([]*simnet.Conn{}, w.conns...)
					w.mu.Unlock()
					for _, cn := range conns {
						if !cn.IsClosed() {
							cn.FailWritesFromNow()
						}
					}
					if prog == hPoolPingFail {
						e1 = p.Ping(ctx)
					} else {
						e1 = p.Do(ctx, ch.Query{QueryID: h + "-q0", Body: "SELECT 1"})
					}
					w.mu.Lock()
					for _, cn := range conns {
						cn.ClearWriteFault()
						// what the failing request itself still did on the connection it had just closed
						// (its own Cancel attempt) is not a reuse by the pool
						w.ownAfter[cn] = len(cn.AfterClose())
					}
					w.mu.Unlock()
				})
				w.ev("%s:pool-request-on-broken-transport:%s,%s", h, errClass(e0), errClass(e1))
				c, aerr := p.Acquire(ctx)
				if aerr != nil {
					w.ev("%s:acquire-failed:%v", h, aerr)
					return
				}
				w.ev("%s:acquired", h)
				derr := do(h, c, h+"-q1", "SELECT 1", ctx)
				if errors.Is(derr, ch.ErrClosed) {
					setViol(name+"/acquired-closed-client", fmt.Sprintf("holder %s acquired a client whose first Do returns ErrClosed (after a pool-level request had failed on a broken transport)", h))
				}
				w.ev("%s:do:%s", h, errClass(derr))
				w.ev("%s:release", h)
				c.Release()
				return
			}
			if prog == hHoldWhileOtherIdles {
				// the holder takes two connections, gives one back and keeps the other for a long
				// time: the idle one is past its idle time at several health-check ticks and has to be
				// destroyed although the pool is never completely at rest
				c1, aerr := p.Acquire(ctx)
				if aerr != nil {
					w.ev("%s:acquire-failed:%v", h, aerr)
					return
				}
				c2, aerr := p.Acquire(ctx)
				if aerr != nil {
					w.ev("%s:acquire-failed:%v", h, aerr)
					c1.Release()
					return
				}
				derr := do(h, c1, h+"-q1", "SELECT 1", ctx)
				w.ev("%s:do:%s", h, errClass(derr))
				derr = do(h+"b", c2, h+"b-q1", "SELECT 1", ctx)
				w.ev("%sb:do:%s", h, errClass(derr))
				c2.Release()
				before := w.openConns()
				vsched.Quiet(func() { simnet.Gap(3*idle + 3*period) })
				if after := w.openConns(); before >= 2 && after >= before {
					setViol(name+"/idle-connection-not-destroyed-while-pool-busy", fmt.Sprintf("%d connections open before and %d after %v with one of them idle all the time (idle time %v, health-check period %v) while holder %s kept the other", before, after, 3*idle+3*period, idle, period, h))
				}
				w.ev("%s:release", h)
				c1.Release()
				return
			}
			if prog == hHoldPastLifetime {
				// the holder keeps a healthy connection longer than MaxConnLifetime, releases it and
				// acquires again at once (before any health check could have looked at it): the
				// expired connection must not come back
				c, aerr := p.Acquire(ctx)
				if aerr != nil {
					w.ev("%s:acquire-failed:%v", h, aerr)
					return
				}
				w.ev("%s:acquired", h)
				derr := do(h, c, h+"-q1", "SELECT 1", ctx)
				w.ev("%s:do:%s", h, errClass(derr))
				vsched.Quiet(func() { simnet.Gap(lifetime + time.Second) })
				w.ev("%s:release", h)
				c.Release()
				c2, aerr := p.Acquire(ctx)
				if aerr != nil {
					w.ev("%s:acquire-failed:%v", h, aerr)
					return
				}
				w.ev("%sb:acquired", h)
				derr = do(h+"b", c2, h+"b-q1", "SELECT 1", ctx)
				w.ev("%sb:do:%s", h, errClass(derr))
				w.mu.Lock()
				first, ok1 := w.queryOn[h+"-q1"]
				second, ok2 := w.queryOn[h+"b-q1"]
				w.mu.Unlock()
				if ok1 && ok2 && first == second {
					setViol(name+"/expired-connection-reissued", fmt.Sprintf("holder %s released connection %d %v after it was dialled (MaxConnLifetime %v) and the next Acquire handed the same connection out again", h, first, lifetime+time.Second, lifetime))
				}
				w.ev("%sb:release", h)
				c2.Release()
				return
			}
			if prog == hStaleRelease {
				// one goroutine, two handles: release the first, acquire again, release the FIRST
				// handle once more — that must not touch the connection the second handle owns
				c1, aerr := p.Acquire(ctx)
				if aerr != nil {
					w.ev("%s:acquire-failed:%v", h, aerr)
					return
				}
				c1.Release()
				// the connection goes round a number of times in between (the pool's bookkeeping
				// per connection — handle slots, counters — wraps or is recycled at some sizes)
				var cerr error
				vsched.Quiet(func() {
					for i := 0; i < s.cycles && cerr == nil; i++ {
						var cx *chpool.Client
						if cx, cerr = p.Acquire(ctx); cerr == nil {
							cx.Release()
						}
					}
				})
				if cerr != nil {
					w.ev("%s:acquire-failed:%v", h, cerr)
					return
				}
				c2, aerr := p.Acquire(ctx)
				if aerr != nil {
					w.ev("%s:acquire-failed:%v", h, aerr)
					return
				}
				w.ev("%s:acquired", h)
				before := p.Stat().AcquiredResources()
				c1.Release()
				if after := p.Stat().AcquiredResources(); after < before {
					setViol(name+"/stale-release-affects-other-handle", fmt.Sprintf("holder %s released an already released handle again while holding a second one: acquired resources went from %d to %d", h, before, after))
				}
				derr := do(h, c2, h+"-q1", "SELECT 1", ctx)
				w.ev("%s:do:%s", h, errClass(derr))
				w.ev("%s:release", h)
				c2.Release()
				return
			}
			c, aerr := p.Acquire(ctx)
			if aerr != nil {
				w.ev("%s:acquire-failed:%v", h, aerr)
				return
			}
			w.ev("%s:acquired", h)
			vmu.Lock()
			holding++
			vmu.Unlock()
			body := "SELECT 1"
			qctx := ctx
			switch prog {
			case hException:
				body = "EXCEPTION"
			case hTransport:
				body = "CUT"
			case hCancelled:
				body = "HANG"
				var cancel context.CancelFunc
				qctx, cancel = context.WithCancel(ctx)
				cancel()
			}
			derr := do(h, c, h+"-q1", body, qctx)
			if errors.Is(derr, ch.ErrClosed) {
				setViol(name+"/acquired-closed-client", fmt.Sprintf("holder %s acquired a client whose first Do returns ErrClosed", h))
			}
			w.ev("%s:do:%s", h, errClass(derr))
			if prog == hTwoQueries {
				derr = do(h, c, h+"-q2", "SELECT 1", ctx)
				w.ev("%s:do2:%s", h, errClass(derr))
			}
			vmu.Lock()
			holding--
			vmu.Unlock()
			w.ev("%s:release", h)
			c.Release()
			if prog == hDoubleRelease {
				w.ev("%s:release-again", h)
				c.Release()
				c.Release()
			}
		}
		for i, prog := range s.progs {
			h := fmt.Sprintf("H%d", i)
			prog := prog
			vsched.Go(h, func() { holder(h, prog) })
		}
		if s.closer {
			vsched.Go("closer", func() {
				defer func() { fin <- struct{}{} }()
				vsched.Point("pool-close")
				w.ev("closer:close")
				p.Close()
				w.ev("closer:closed")
			})
		}
		n := len(s.progs)
		if s.closer {
			n++
		}
		for i := 0; i < n; i++ {
			vsched.Recv("main", fin)
		}
		if s.idleWait > 0 {
			before := w.openConns()
			simnet.Gap(s.idleWait)
			if after := w.openConns(); after > 0 && before > 0 {
				setViol(name+"/idle-connection-not-destroyed", fmt.Sprintf("%d connection(s) still open %v after the last release (idle time %v, lifetime %v, health-check period %v)", after, s.idleWait, idle, lifetime, period))
			}
		}
		p.Close() // waits for the health checker, destroys idle resources
		acquired := p.Stat().AcquiredResources()
		// ---- end-state oracle ----
		w.mu.Lock()
		defer w.mu.Unlock()
		if viol != "" {
			return Outcome{Key: viol, Detail: vdetail + " | events: " + strings.Join(w.events, " ")}
		}
		if w.overOpen != "" {
			return Outcome{Key: name + "/too-many-connections", Detail: w.overOpen + " | events: " + strings.Join(w.events, " ")}
		}
		_ = acquired // puddle removes a destroyed resource asynchronously: the count may lag behind, the connections below do not
		open := 0
		for _, c := range w.conns {
			if !c.IsClosed() {
				open++
			}
		}
		if open != 0 {
			return Outcome{Key: name + "/connection-leaked-after-close", Detail: fmt.Sprintf("%d of %d dialled connections still open after Pool.Close and all releases | events: %s", open, len(w.conns), strings.Join(w.events, " "))}
		}
		// one holder at a time per connection: replay the event log
		holds := map[int]string{} // conn -> holder
		connOf := map[string]int{}
		for q, c := range w.queryOn {
			connOf[strings.SplitN(q, "-", 2)[0]] = c
		}
		dead := map[int]bool{}
		for _, e := range w.events {
			parts := strings.SplitN(e, ":", 3)
			h, what := parts[0], parts[1]
			ci, known := connOf[h]
			switch what {
			case "acquired":
				if !known {
					continue
				}
				if other, busy := holds[ci]; busy && other != h {
					return Outcome{Key: name + "/two-holders", Detail: fmt.Sprintf("connection %d is held by %s and handed to %s as well | events: %s", ci, other, h, strings.Join(w.events, " "))}
				}
				if dead[ci] {
					return Outcome{Key: name + "/dead-connection-reissued", Detail: fmt.Sprintf("connection %d was released broken and later acquired by %s | events: %s", ci, h, strings.Join(w.events, " "))}
				}
				holds[ci] = h
			case "do":
				if known && (parts[2] == "eof" || parts[2] == "net" || parts[2] == "canceled" || parts[2] == "closed") {
					dead[ci] = true
				}
			case "release":
				if known && holds[ci] == h {
					delete(holds, ci)
				}
			}
		}
		for _, c := range w.conns {
			if ac := c.AfterClose()[w.ownAfter[c]:]; len(ac) > 0 {
				for _, call := range ac {
					if strings.HasPrefix(call, "write") {
						return Outcome{Key: name + "/use-after-destroy", Detail: fmt.Sprintf("a destroyed connection was written to again (%v) | events: %s", ac, strings.Join(w.events, " "))}
					}
				}
			}
		}
		// observation: which holders succeeded, how many connections were dialled
		var res []string
		for _, e := range w.events {
			if strings.Contains(e, ":do:") || strings.Contains(e, "-done:") || strings.Contains(e, "acquire-failed") {
				res = append(res, e)
			}
		}
		sort.Strings(res)
		return Outcome{Obs: fmt.Sprintf("%s dialled=%d maxopen=%d", strings.Join(res, ","), len(w.conns), w.maxOpen)}
	}
}

func (w *poolWorld) openConns() int {
	w.mu.Lock()
	defer w.mu.Unlock()
	n := 0
	for _, c := range w.conns {
		if !c.IsClosed() {
			n++
		}
	}
	return n
}

// C11 — a pooled connection has one holder; dead or expired ones are never reissued.
func C11(c *vk.Ctx) {
	c.Rule("pool scenarios = N in {2, 3} holder threads x MaxConns in {1, 2}, each holder running one program of {Acquire-Do(ok)-Release, Do answered by an exception, Do ending in a transport error, Do with a cancelled context, Release three times, Pool.Do, Pool.Ping, Pool.Ping / Pool.Do on a transport that broke while the connection was idle followed by Acquire-Do-Release, two queries, release-reacquire-release the first handle again (also after the connection went round n acquire-release cycles in between, for every n <= 130)}, optionally a thread calling Pool.Close concurrently; plus health-check scenarios (period 1 s, idle 2 s, lifetime 5 s of fake time) a holder that keeps a connection past MaxConnLifetime while the health check is an hour away, and a holder that keeps one connection busy while another one idles past its idle time, plus scenarios on a transport whose Close tears the connection down but returns an error. The real chpool + puddle (instrumented at API granularity) + ch.Dial run under the scheduler; what a holder does on its own connection is a quiet region. All interleavings of the pool-level steps up to the preemption bound (quick 1, thorough 2). Oracle: never two holders of one connection, a connection released broken is never acquired again and never written to, open connections <= MaxConns at every dial, no panic on repeated Release, nothing acquired at the end, after Close every dialled connection is closed, idle connections are destroyed by the health check, a connection released after its lifetime is not handed out again. distinct_nontrivial = executions.")
	quick := c.Quick()
	bound := 1
	if !quick {
		bound = 2
	}
	var scns []poolScn
	if quick {
		for _, x := range []int{hOK, hException, hTransport, hCancelled, hDoubleRelease, hPoolDo, hPoolPing, hTwoQueries} {
			scns = append(scns, poolScn{maxConns: 1, progs: []int{hOK, x}})
		}
		for _, pr := range [][]int{{hDoubleRelease, hTransport}, {hDoubleRelease, hCancelled}, {hDoubleRelease, hPoolDo}, {hTransport, hTransport}, {hPoolDo, hPoolPing}, {hDoubleRelease, hDoubleRelease}} {
			scns = append(scns, poolScn{maxConns: 1, progs: pr})
		}
		scns = append(scns, poolScn{maxConns: 2, progs: []int{hOK, hPoolDo}})
		scns = append(scns, poolScn{maxConns: 1, progs: []int{hStaleRelease}}, poolScn{maxConns: 1, progs: []int{hStaleRelease, hOK}})
		scns = append(scns, poolScn{maxConns: 1, progs: []int{hPoolPingFail}}, poolScn{maxConns: 1, progs: []int{hPoolDoFail}}, poolScn{maxConns: 1, progs: []int{hPoolPingFail, hOK}}, poolScn{maxConns: 1, progs: []int{hPoolDoFail, hOK}})
		scns = append(scns, poolScn{maxConns: 1, progs: []int{hTransport, hPoolDo}, closer: true})
	} else {
		for _, mc := range []int{1, 2} {
			for a := 0; a < hHoldPastLifetime; a++ { // (the later programs need their own pool options)
				for b := a; b < hHoldPastLifetime; b++ {
					scns = append(scns, poolScn{maxConns: mc, progs: []int{a, b}})
				}
			}
		}
		for _, pr := range [][]int{{hOK, hOK}, {hDoubleRelease, hOK}, {hTransport, hPoolDo}, {hCancelled, hOK}} {
			scns = append(scns, poolScn{maxConns: 1, progs: pr, closer: true}, poolScn{maxConns: 2, progs: pr, closer: true})
		}
		for _, pr := range [][]int{{hOK, hOK, hOK}, {hDoubleRelease, hOK, hOK}, {hTransport, hOK, hDoubleRelease}, {hException, hCancelled, hPoolDo}} {
			scns = append(scns, poolScn{maxConns: 1, progs: pr}, poolScn{maxConns: 2, progs: pr})
		}
	}
	// health check: idle time and lifetime (the clock thread drives the ticker)
	scns = append(scns,
		poolScn{maxConns: 2, progs: []int{hOK}, period: time.Second, idleTime: 2 * time.Second, lifetime: time.Hour, idleWait: 4 * time.Second},
		poolScn{maxConns: 2, progs: []int{hOK, hOK}, period: time.Second, idleTime: time.Hour, lifetime: 3 * time.Second, idleWait: 5 * time.Second},
		poolScn{maxConns: 1, progs: []int{hTwoQueries, hOK}, period: time.Second, idleTime: 2 * time.Second, lifetime: 5 * time.Second, idleWait: 7 * time.Second},
		// lifetime without the health check's help (its period is an hour): the release path alone
		// has to retire a connection that is older than MaxConnLifetime
		poolScn{maxConns: 1, progs: []int{hHoldPastLifetime}, period: time.Hour, idleTime: time.Hour, lifetime: 3 * time.Second},
		// idle time enforced by the health check while another connection is in use all the time
		poolScn{maxConns: 2, progs: []int{hHoldWhileOtherIdles}, period: time.Second, idleTime: 2 * time.Second, lifetime: time.Hour},
	)
	// a transport whose Close tears the connection down but reports an error: a client that
	// closed itself (transport error, cancelled query) must still not be reissued
	scns = append(scns,
		poolScn{maxConns: 1, progs: []int{hTransport, hOK}, closeErr: true},
		poolScn{maxConns: 1, progs: []int{hCancelled, hOK}, closeErr: true},
	)
	if !quick {
		scns = append(scns, poolScn{maxConns: 1, progs: []int{hOK, hOK}, closeErr: true, closer: true})
	}
	// the stale release after the connection has gone round n times, for EVERY n up to 130
	// (whatever size the pool's per-connection bookkeeping wraps at, below that), alone; and
	// next to a second holder around the powers of two
	for n := 1; n <= 130; n++ {
		scns = append(scns, poolScn{maxConns: 1, progs: []int{hStaleRelease}, cycles: n})
	}
	for _, n := range []int{15, 16, 31, 32, 63, 64, 127, 128} {
		if !quick || n == 63 || n == 64 {
			scns = append(scns, poolScn{maxConns: 1, progs: []int{hStaleRelease, hOK}, cycles: n})
		}
	}
	minBound := 99
	for i, s := range scns {
		id := s.id()
		var replay []int
		if c.Only != "" {
			sid, chs := SplitCase(c.Only)
			if sid != id {
				continue
			}
			replay = ParseChoices(chs)
		}
		_ = i
		c.Current(id)
		curBound = bound
		e := &Explorer{C: c, Scenario: id, KeyBase: "C11/engine", Body: bodyPool(s), Split: true}
		if c.Only != "" {
			ReplayAndPrint(c, e, replay)
			return
		}
		b := bound
		if s.idleWait > 0 && b > 1 {
			b = 1
		}
		if s.cycles > 0 && len(s.progs) == 1 {
			// one holder, nothing to interleave with: the sweep over n runs the default schedule
			// of each n (shared out over the shards); the bound is not affected
			if c.Mine(int64(i)) {
				x := RunOnce(nil, false, e.Body)
				if key, detail := e.verdict(&x); key != "" {
					c.Violation(key, id+"@", detail, nil)
				}
				c.Eval("stale release after n cycles (default schedule)", 1)
				c.AddStates(1, int64(x.Steps), 1)
				c.DistinctN(1)
			}
			continue
		}
		st := e.Run(b)
		Account(c, id, st)
		c.DistinctN(st.Executions)
		if st.BoundDone < minBound {
			minBound = st.BoundDone
		}
		if st.FirstSample != nil && i == 4 {
			c.Sample(map[string]any{"scenario": id, "bound": b, "executions": st.Executions, "outcomes": st.Outcomes})
		}
		if c.OverBudget() {
			break
		}
	}
	if minBound == 99 {
		minBound = 0
	}
	c.SetBound(minBound)
}
