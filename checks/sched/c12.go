//go:build go1.25

package sched

import (
	"context"
	"fmt"
	"os"
	"regexp"
	"strconv"
	"strings"
	"time"

	ch "github.com/ClickHouse/ch-go"
	"github.com/ClickHouse/ch-go/proto"

	"verif/vk"
	"verif/vrt/vsched"
)

// raceLog follows the Go race detector's report file of this process
// (GORACE=log_path=<p> halt_on_error=0 makes the runtime append to <p>.<pid>).
type raceLog struct {
	path string
	off  int64
}

func newRaceLog() *raceLog {
	for _, kv := range strings.Fields(os.Getenv("GORACE")) {
		if strings.HasPrefix(kv, "log_path=") {
			return &raceLog{path: strings.TrimPrefix(kv, "log_path=") + "." + strconv.Itoa(os.Getpid())}
		}
	}
	return nil
}

type raceReport struct {
	text   string
	frames [2]string // first non-runtime frame of the two conflicting accesses
}

var frameRe = regexp.MustCompile(`(?m)^  ([^\s(][^\n]*)\(\)\n      ([^\n]+)`)

// poll returns the reports appended since the last call.
func (r *raceLog) poll() []raceReport {
	if r == nil {
		return nil
	}
	st, err := os.Stat(r.path)
	if err != nil || st.Size() == r.off {
		return nil
	}
	b, err := os.ReadFile(r.path)
	if err != nil {
		return nil
	}
	chunk := string(b[r.off:])
	r.off = int64(len(b))
	var out []raceReport
	for _, rep := range strings.Split(chunk, "WARNING: DATA RACE") {
		if !strings.Contains(rep, "by goroutine") {
			continue
		}
		rr := raceReport{text: rep}
		// the two access stacks are the first two paragraphs
		paras := strings.Split(rep, "\n\n")
		n := 0
		for _, p := range paras {
			if n >= 2 {
				break
			}
			if !strings.Contains(p, "by goroutine") && !strings.Contains(p, "by main goroutine") {
				continue
			}
			// The access is attributed to the nearest caller that is library code (ch-go) or
			// harness code: standard-library plumbing, the simulated transport copying the
			// caller's buffer (a real connection does that copy in the kernel, on behalf of
			// the same caller) and third-party packages the library calls into (compression
			// codecs, hashing, telemetry) act on behalf of whoever called them. A stack with no
			// such caller at all is attributed to its first non-plumbing frame.
			frame, firstOther := "?", ""
			top := true
			for _, m := range frameRe.FindAllStringSubmatch(p, -1) {
				fn := m[1]
				if top && !strings.HasPrefix(fn, "runtime.") && !strings.HasPrefix(fn, "internal/") {
					top = false
					if strings.HasPrefix(fn, "verif/vrt/vsched.") {
						// the scheduler's own bookkeeping (touched only by the thread holding the
						// baton; deliberately not synchronised so that it adds no happens-before
						// edges): not an access of the caller
						frame = "verif/vrt/vsched(bookkeeping)"
						break
					}
				}
				skip := false
				for _, pre := range []string{"runtime.", "internal/", "sync/atomic.", "sync.", "net.", "io.", "bufio.", "bytes.", "encoding/binary.", "verif/simnet.", "verif/vrt/"} {
					if strings.HasPrefix(fn, pre) {
						skip = true
					}
				}
				if skip {
					continue
				}
				if libFrame(fn) || strings.HasPrefix(fn, "verif/") {
					frame = fn
					break
				}
				if firstOther == "" {
					firstOther = fn
				}
			}
			if frame == "?" && firstOther != "" {
				frame = firstOther
			}
			rr.frames[n] = frame
			n++
		}
		out = append(out, rr)
	}
	return out
}

func libFrame(f string) bool { return strings.HasPrefix(f, "github.com/ClickHouse/ch-go") }
func harnessFrame(f string) bool {
	return strings.HasPrefix(f, "verif/") && !strings.HasPrefix(f, "verif/vrt/") || f == "?"
}

func short(f string) string {
	f = strings.TrimPrefix(f, "github.com/ClickHouse/ch-go")
	f = strings.TrimPrefix(f, "/")
	if i := strings.Index(f, ".func"); i > 0 {
		f = f[:i]
	}
	return f
}

// body12 runs a query scenario (fault-free or with an exception) with or without the
// OpenTelemetry instrumentation, optionally with a foreign Close / cancel.
func body12(s scn, otel bool, foreign string, f fault) Body {
	return func() Outcome {
		opt := s.opt
		opt.OpenTelemetryInstrumentation = otel
		c, err := Connect(opt, baseHello)
		if err != nil {
			return Outcome{Key: "C12/" + s.name + "/handshake-failed", Detail: err.Error()}
		}
		defer vsched.Quiet(func() { _ = c.C.Close() })
		fa := &failAt{}
		var inj *Inject
		if f.kind == "exc" {
			inj = &Inject{G: f.k, Stop: true, Bytes: c.W.Exception(excReadonly)}
		}
		if f.kind == "extradata" {
			// the server repeats its header block while the sender is using the column info
			eb := append(c.W.Data(0, Col("v", "UInt64")), c.W.Data(0, Col("v", "UInt64"))...)
			inj = &Inject{G: f.k, Bytes: eb}
		}
		q, steps := s.mk(c, fa)
		c.RunPeer("peer", c.HsLen, steps, inj)
		ctx, cancel := context.WithCancel(context.Background())
		defer cancel()
		switch foreign {
		case "close":
			vsched.Go("closer", func() {
				vsched.Point("foreign-close")
				_ = c.Cl.Close()
			})
		case "cancel":
			vsched.Go("canceller", func() {
				vsched.PointCtxWrite("cancel")
				cancel()
			})
		case "isclosed":
			vsched.Go("observer", func() {
				vsched.Point("foreign-isclosed")
				_ = c.Cl.IsClosed()
				_ = c.Cl.ServerInfo()
			})
		}
		derr := c.Cl.Do(ctx, q)
		obs := errClass(derr)
		if !c.Cl.IsClosed() && foreign == "" {
			vsched.Quiet(func() {
				before := c.C.OutLen()
				vsched.Go("probe-peer", func() {
					closed := false
					c.C.Await(func(o []byte, cl bool) bool { closed = cl; return cl || len(o) > before })
					if !closed {
						c.C.Deliver(Pong())
					}
				})
				_ = c.Cl.Ping(context.Background())
			})
		}
		vsched.Quiet(func() { _ = c.Cl.Close() })
		return Outcome{Obs: obs}
	}
}

// withExternal derives the scenario whose query also ships an external data table under the
// default table name (the client fills in "_data" itself).
func withExternal(s scn) scn {
	mk := s.mk
	s.name += "-external"
	s.mk = func(c *Conn, fa *failAt) (ch.Query, []Step) {
		q, steps := mk(c, fa)
		ext := proto.ColUInt64{7, 8, 9}
		q.ExternalData = []proto.InputColumn{{Name: "x", Data: &ext}}
		out := append([]Step{}, steps...)
		if len(out) > 0 && out[0].AwaitN == 2 {
			out[0].AwaitN = 3 // query, external table, its terminator
		}
		return q, out
	}
	return s
}

// body12two runs the same scenario on two independent clients (own connection, own peer,
// same options) from two goroutines: clients that share nothing the caller can see must
// share nothing at all (package-level caches, pooled encoders, lazily built tables).
func body12two(s scn, comp ch.Compression) Body {
	return func() Outcome {
		opt := s.opt
		opt.Compression = comp
		// both clients are made from ONE Options value, as the connections of a pool are; its
		// settings slice has spare capacity (built with append), and the queries bring their own
		opt.Settings = append(make([]ch.Setting, 0, 4), ch.Setting{Key: "max_threads", Value: "1"})
		name := fmt.Sprintf("C12/two-clients/%s", s.name)
		c1, err := Connect(opt, baseHello)
		if err != nil {
			return Outcome{Key: name + "/handshake-failed", Detail: err.Error()}
		}
		defer vsched.Quiet(func() { _ = c1.C.Close() })
		c2, err := Connect(opt, baseHello)
		if err != nil {
			return Outcome{Key: name + "/handshake-failed", Detail: err.Error()}
		}
		defer vsched.Quiet(func() { _ = c2.C.Close() })
		q1, st1 := s.mk(c1, &failAt{})
		q2, st2 := s.mk(c2, &failAt{})
		q1.Settings = []ch.Setting{{Key: "first", Value: "1"}, {Key: "x", Value: "1"}}
		q2.Settings = []ch.Setting{{Key: "second", Value: "2"}}
		c1.RunPeer("peer", c1.HsLen, st1, nil)
		c2.RunPeer("peer2", c2.HsLen, st2, nil)
		fin := make(chan error, 1)
		vsched.Go("second", func() { fin <- c2.Cl.Do(context.Background(), q2) })
		e1 := c1.Cl.Do(context.Background(), q1)
		e2 := vsched.Recv("main", fin)
		vsched.Quiet(func() { _ = c1.Cl.Close(); _ = c2.Cl.Close() })
		if e1 != nil || e2 != nil {
			return Outcome{Obs: errClass(e1) + "+" + errClass(e2), Key: name + "/fault-free-run-fails", Detail: fmt.Sprintf("two independent clients running the same fault-free query: %v / %v", e1, e2)}
		}
		return Outcome{Obs: "nil+nil"}
	}
}

// probeTable is written by two harness threads without synchronisation: the detector's
// self-test (a -race run that cannot see this race cannot see the library's either).
var probeTable [256]int

//go:noinline
func probeWrite(v int) {
	for i := range probeTable {
		probeTable[i] = v + i
	}
}

// raceProbeBody has the shape of the two-clients scenario: two threads, each starting a
// worker goroutine of its own that writes the shared table, separated by scheduling points.
func raceProbeBody() Outcome {
	fin := make(chan struct{}, 2)
	vsched.Go("probe-second", func() {
		vsched.Point("probe-second-start")
		inner := make(chan struct{}, 1)
		vsched.Go("probe-second-worker", func() { probeWrite(1); inner <- struct{}{} })
		vsched.Recv("probe-second", inner)
		fin <- struct{}{}
	})
	vsched.Point("probe-main-start")
	inner := make(chan struct{}, 1)
	vsched.Go("probe-main-worker", func() { probeWrite(2); inner <- struct{}{} })
	vsched.Recv("main", inner)
	vsched.Recv("main", fin)
	return Outcome{Obs: "probe"}
}

// C12 — no data race inside the library: the schedules enumerated by the explorer are run
// under the Go race detector (the scheduler's barrier adds no happens-before edges).
func C12(c *vk.Ctx) {
	c.Rule("query scenarios of C04 (insert with progress, streamed insert, LZ4 insert, select, select with an external data table, select with logs/profile events), each with OpenTelemetry instrumentation on and off, fault-free, with a server exception at two gates and with the server repeating its header block during an insert, plus Close / IsClosed / cancel from a foreign goroutine, plus two independent clients running the same insert / select side by side under each compression method (Disabled, None, LZ4, LZ4HC, ZSTD; quick tier: default schedule only), plus pool scenarios of C11 (two holders incl. a broken connection, a double release and a stale release after 63 / 64 acquire-release cycles, the health checker destroying expired connections); every schedule up to the deviation bound is executed in a -race build; a report counts when both conflicting accesses are in ch-go packages. distinct_nontrivial = executions.")
	rl := newRaceLog()
	if rl == nil && c.Flavour == "sched-race" {
		harness("C12 needs GORACE=log_path=...")
	}
	// detector self-test: a deliberate race between two harness threads must be reported
	if rl != nil && (c.Only == "" || c.Only == "self-test@") {
		RunOnce(nil, false, raceProbeBody)
		seen := false
		for _, r := range rl.poll() {
			if strings.Contains(r.text, "probeWrite") {
				seen = true
			}
		}
		if !seen {
			harness("race detector self-test: the deliberate race between two harness threads (probeWrite) was not reported; races in the library would go unseen too")
		}
		c.Note("race detector self-test passed: a deliberate unsynchronised write/write between two scheduled threads was reported")
	}
	quick := c.Quick()
	bound := 1
	if !quick {
		bound = 2
	}
	scs := append(scenarios(), earlyProgress())
	for _, s := range scenarios() {
		if s.name == "select" {
			scs = append(scs, withExternal(s))
		}
	}
	type job struct {
		id   string
		body Body
		kb   string
		low  bool // quick tier: the default schedule only
	}
	var jobs []job
	for _, s := range scs {
		core := s.name == "insert-early-progress" || s.name == "select" || s.name == "select-external"
		if quick && (s.name == "insert-stream-zstd" || s.name == "select-lz4" || s.name == "insert-lz4") {
			continue
		}
		for _, otel := range []bool{false, true} {
			if quick && !otel && !core {
				continue
			}
			jobs = append(jobs, job{fmt.Sprintf("%s/otel=%v/plain", s.name, otel), body12(s, otel, "", fault{kind: "none"}), "C12/" + s.name, false})
			for _, g := range []int{2, 3} {
				if quick && (!otel || g == 3 || !(core || s.name == "insert")) {
					continue
				}
				jobs = append(jobs, job{fmt.Sprintf("%s/otel=%v/exc@%d", s.name, otel, g), body12(s, otel, "", fault{kind: "exc", k: g}), "C12/" + s.name, false})
			}
		}
		if strings.HasPrefix(s.name, "insert") && (!quick || s.name == "insert") {
			for _, g := range []int{3, 4} {
				jobs = append(jobs, job{fmt.Sprintf("%s/otel=false/extradata@%d", s.name, g), body12(s, false, "", fault{kind: "extradata", k: g}), "C12/" + s.name, false})
			}
		}
		for _, foreign := range []string{"close", "cancel", "isclosed"} {
			if quick && s.name != "select" {
				continue
			}
			jobs = append(jobs, job{fmt.Sprintf("%s/otel=true/foreign-%s", s.name, foreign), body12(s, true, foreign, fault{kind: "none"}), "C12/" + s.name, false})
		}
	}
	// two independent clients side by side, per compression method
	for _, s := range scs {
		if s.name != "insert" && s.name != "select" {
			continue
		}
		for _, cm := range []struct {
			n string
			c ch.Compression
		}{{"disabled", ch.CompressionDisabled}, {"none", ch.CompressionNone}, {"lz4", ch.CompressionLZ4}, {"lz4hc", ch.CompressionLZ4HC}, {"zstd", ch.CompressionZSTD}} {
			if quick && s.name == "select" && cm.n != "lz4" {
				continue
			}
			// (a race needs both accesses in one execution, not a particular interleaving: the
			// quick tier runs the default schedule, the thorough tier the full bound)
			jobs = append(jobs, job{fmt.Sprintf("two-clients/%s/%s", s.name, cm.n), body12two(s, cm.c), "C12/two-clients", true})
		}
	}
	// pool users with the health checker (the C11 harness under the race detector)
	poolScns := []poolScn{
		{maxConns: 1, progs: []int{hOK, hTransport}},
		{maxConns: 1, progs: []int{hOK, hDoubleRelease}},
		{maxConns: 2, progs: []int{hOK, hOK}, period: time.Second, idleTime: time.Hour, lifetime: 3 * time.Second, idleWait: 5 * time.Second},
		// a stale second Release after the connection went round 64 times, next to another holder
		{maxConns: 1, progs: []int{hStaleRelease, hOK}, cycles: 63},
		{maxConns: 1, progs: []int{hStaleRelease, hOK}, cycles: 64},
	}
	if !quick {
		poolScns = append(poolScns, poolScn{maxConns: 2, progs: []int{hOK, hTransport}}, poolScn{maxConns: 1, progs: []int{hTransport, hPoolDo}, closer: true})
	}
	for _, ps := range poolScns {
		jobs = append(jobs, job{"pool/" + ps.id(), bodyPool(ps), "C12/pool", false})
	}
	minBound := 99
	for _, j := range jobs {
		var replay []int
		if c.Only != "" {
			sid, chs := SplitCase(c.Only)
			if sid != j.id {
				continue
			}
			replay = ParseChoices(chs)
		}
		c.Current(j.id)
		curBound = bound
		e := &Explorer{C: c, Scenario: j.id, KeyBase: j.kb, Body: j.body, Split: true}
		e.AfterExec = func(x *Exec) {
			for _, r := range rl.poll() {
				a, b := r.frames[0], r.frames[1]
				switch {
				case strings.HasPrefix(a, "verif/vrt/vsched(") || strings.HasPrefix(b, "verif/vrt/vsched("):
					// scheduler bookkeeping, see poll
				case libFrame(a) && libFrame(b):
					fa, fb := short(a), short(b)
					if fb < fa {
						fa, fb = fb, fa
					}
					c.Violation("C12/race/"+fa+"|"+fb, j.id+"@"+choicesStr(x.Choices), "data race between "+a+" and "+b+"\n"+trim(r.text, 1800), nil)
				case harnessFrame(a) || harnessFrame(b):
					harness("race report involving harness code (%s / %s):\n%s", a, b, r.text)
				default:
					c.Note("race report outside the library ignored: %s / %s", a, b)
				}
			}
		}
		if c.Only != "" {
			ReplayAndPrint(c, e, replay)
			x := Exec{Choices: replay}
			e.AfterExec(&x)
			return
		}
		t0 := c.Elapsed()
		if j.low && quick {
			// default schedule only (one shard runs it)
			if c.Shard == 0 {
				x := RunOnce(nil, false, j.body)
				e.AfterExec(&x)
				if key, detail := e.verdict(&x); key != "" {
					c.Violation(key, j.id+"@", detail, nil)
				}
				c.Eval("two-clients", 1)
				c.AddStates(1, int64(x.Steps), 1)
				c.DistinctN(1)
			}
			continue
		}
		st := e.Run(bound)
		if os.Getenv("VERIF_JOBLOG") != "" {
			fmt.Fprintf(os.Stderr, "job %s: %d executions, %d steps, %.1fs\n", j.id, st.Executions, st.Steps, (c.Elapsed() - t0).Seconds())
		}
		Account(c, strings.SplitN(j.id, "/", 2)[0], st)
		c.DistinctN(st.Executions)
		if st.BoundDone < minBound && !(j.low && quick) {
			minBound = st.BoundDone
		}
		if st.FirstSample != nil && strings.HasPrefix(j.id, "insert/otel=true/plain") {
			c.Sample(map[string]any{"scenario": j.id, "bound": bound, "executions": st.Executions, "default_schedule_trace": tailS(st.FirstSample.Trace(), 50)})
		}
		if c.OverBudget() {
			break
		}
	}
	if minBound == 99 {
		minBound = 0
	}
	c.SetBound(minBound)
}

func trim(s string, n int) string {
	if len(s) > n {
		return s[:n] + "…"
	}
	return s
}

var _ = ch.ErrClosed
