//go:build go1.25

package sched

import (
	"context"
	"fmt"
	"net"
	"strings"
	"sync"
	"time"

	ch "github.com/ClickHouse/ch-go"
	"github.com/ClickHouse/ch-go/proto"

	"verif/refwire"
	"verif/simnet"
	"verif/vk"
	"verif/vrt/vsched"
)

// simDialer hands out simulated connections and remembers them.
type simDialer struct {
	mu    sync.Mutex
	conns []*simnet.Conn
	onNew func(c *simnet.Conn, id int)
}

func (d *simDialer) DialContext(ctx context.Context, network, addr string) (net.Conn, error) {
	c := simnet.NewConn()
	d.mu.Lock()
	id := len(d.conns)
	d.conns = append(d.conns, c)
	d.mu.Unlock()
	if d.onNew != nil {
		d.onNew(c, id)
	}
	return c, nil
}

type c13case struct {
	crev, srev int
	resp       string // hello hello-late exception pong data garbage cut silence trunc
	k          int    // truncation position for trunc
	cred       int
	dial       bool
	nort       bool // Options.ReadTimeout = NoTimeout: only the handshake time-out bounds the wait
}

func (k c13case) id() string {
	s := fmt.Sprintf("c=%d/s=%d/%s@%d/cred=%d/dial=%v", k.crev, k.srev, k.resp, k.k, k.cred, k.dial)
	if k.nort {
		s += "/no-read-timeout"
	}
	return s
}

var creds = []struct{ db, user, pass, quota string }{
	{"", "", "", ""},
	{"db1", "alice", "secret", "qk"},
	{strings.Repeat("d", 300), strings.Repeat("u", 300), strings.Repeat("p", 300), strings.Repeat("q", 300)},
	{"\xff\xfe", "us\x00er", "\x80pass", "\xc3"},
}

const c13HandshakeTimeout = 20 * time.Second

func body13(k c13case) Body {
	return func() Outcome {
		cr := creds[k.cred]
		opt := ch.Options{ProtocolVersion: k.crev, Database: cr.db, User: cr.user, Password: cr.pass, QuotaKey: cr.quota, HandshakeTimeout: c13HandshakeTimeout}
		if k.nort {
			opt.ReadTimeout = ch.NoTimeout
		}
		hello := baseHello
		hello.Revision = k.srev
		neg := min(k.crev, k.srev)
		hb := ServerHello(hello, k.crev)
		var conn *simnet.Conn
		peer := func(c *simnet.Conn) {
			vsched.Go("peer", func() {
				closed := false
				c.Await(func(out []byte, cl bool) bool { closed = cl; return cl || len(out) > 0 })
				if closed {
					return
				}
				switch k.resp {
				case "hello":
					c.Deliver(hb)
				case "hello-late":
					simnet.Gap(ch.DefaultReadTimeout + time.Second)
					c.Deliver(hb)
				case "hello-late2", "hello-late3", "hello-last-window", "hello-last-moment":
					// every hello that arrives before the handshake timeout is to be accepted: after
					// 2.5 and 4.2 read timeouts, half a read timeout and 10 ms before the end
					d := map[string]time.Duration{"hello-late2": ch.DefaultReadTimeout*5/2, "hello-late3": ch.DefaultReadTimeout*21/5,
						"hello-last-window": c13HandshakeTimeout - ch.DefaultReadTimeout/2, "hello-last-moment": c13HandshakeTimeout - 10*time.Millisecond}[k.resp]
					simnet.Gap(d)
					c.Deliver(hb)
				case "exception":
					c.Deliver(Wire{Rev: neg}.Exception(refwire.Exception{Code: 516, Name: "DB::Exception", Message: "DB::Exception: default: Authentication failed", Stack: ""}))
				case "exception-close":
					// a real server closes after refusing; the transport reports the end of the stream
					// together with the exception's last bytes
					c.EOFWithData = true
					c.DeliverAndCut(Wire{Rev: neg}.Exception(refwire.Exception{Code: 516, Name: "DB::Exception", Message: "DB::Exception: default: Authentication failed", Stack: ""}))
				case "pong":
					c.Deliver(Pong())
				case "data":
					c.Deliver(Wire{Rev: neg}.Data(0, Col("v", "UInt64")))
				case "garbage":
					c.Deliver([]byte{0xde, 0xad, 0xbe, 0xef, 0xff, 0xff, 0xff, 0xff, 0xff, 0xff, 0xff, 0x7f})
				case "cut":
					c.CutRead()
				case "trunc":
					c.Deliver(hb[:k.k])
					c.CutRead()
				case "trunc-stall":
					// a hello that stops in the middle while the connection stays up
					c.Deliver(hb[:k.k])
				case "exception-stall":
					eb := Wire{Rev: neg}.Exception(refwire.Exception{Code: 516, Name: "DB::Exception", Message: "DB::Exception: default: Authentication failed", Stack: ""})
					c.Deliver(eb[:len(eb)/2])
				case "silence":
				}
			})
		}
		var cl *ch.Client
		var err error
		d := &simDialer{onNew: func(c *simnet.Conn, id int) { conn = c; peer(c) }}
		if k.dial {
			opt.Dialer = d
			cl, err = ch.Dial(context.Background(), opt)
		} else {
			conn = simnet.NewConn()
			peer(conn)
			cl, err = ch.Connect(context.Background(), conn, opt)
		}
		defer vsched.Quiet(func() { _ = conn.Close() })
		expectOK := k.resp == "hello" || strings.HasPrefix(k.resp, "hello-la")
		if !expectOK {
			if err == nil {
				if cl != nil {
					vsched.Quiet(func() { _ = cl.Close() })
				}
				return Outcome{Key: "C13/handshake-accepted/" + k.resp, Detail: fmt.Sprintf("server answered with %s but the handshake succeeded", k.resp)}
			}
			if cl != nil {
				return Outcome{Key: "C13/client-returned-with-error", Detail: fmt.Sprintf("handshake failed (%v) but a client was returned", err)}
			}
			if k.resp == "exception" || k.resp == "exception-close" {
				e, ok := ch.AsException(err)
				if !ok || e.Code != 516 || !strings.Contains(e.Message, "Authentication failed") {
					return Outcome{Key: "C13/exception-not-carried", Detail: fmt.Sprintf("the server's exception cannot be recovered from %v", err)}
				}
			}
			if k.dial && !conn.IsClosed() {
				return Outcome{Key: "C13/dial-leaks-connection/" + k.resp, Detail: fmt.Sprintf("Dial failed (%v) but the connection it opened was not closed", err)}
			}
			return Outcome{Obs: "failed:" + k.resp}
		}
		if err != nil {
			cls := "hello"
			if strings.HasPrefix(k.resp, "hello-la") {
				cls = "late-hello-before-handshake-timeout"
			} else if k.srev < k.crev && (k.srev < refwire.RevVersionPatch) {
				cls = "older-server-hello"
			}
			return Outcome{Key: "C13/handshake-failed/" + cls, Detail: fmt.Sprintf("client %d, server %d (%s): %v", k.crev, k.srev, k.resp, err)}
		}
		defer vsched.Quiet(func() { _ = cl.Close() })
		// what the client wrote: hello (+ addendum iff the negotiated revision has it)
		hs := conn.Snapshot()
		hr := refwire.NewR(hs)
		gh := refwire.DecodeClientHello(hr)
		wdb, wuser := cr.db, cr.user
		if wdb == "" {
			wdb = "default"
		}
		if wuser == "" {
			wuser = "default"
		}
		if hr.Err != nil || gh.Revision != k.crev || gh.Database != wdb || gh.User != wuser || gh.Pass != cr.pass || !strings.HasPrefix(gh.Name, "clickhouse/ch-go") {
			return Outcome{Key: "C13/client-hello", Detail: fmt.Sprintf("client hello parsed as %+v (err %v)", gh, hr.Err)}
		}
		if neg >= refwire.RevAddendum {
			if q := hr.Str(); hr.Err != nil || q != cr.quota || hr.Left() != 0 {
				return Outcome{Key: "C13/addendum/missing-or-wrong", Detail: fmt.Sprintf("negotiated %d has the addendum; after the hello the client wrote %x", neg, hs[hr.Pos:])}
			}
		} else if hr.Left() != 0 {
			return Outcome{Key: "C13/addendum/unexpected", Detail: fmt.Sprintf("negotiated %d has no addendum but the client wrote %x after its hello", neg, hs[hr.Pos:])}
		}
		// server identity as sent (fields the negotiated revision does not carry stay empty)
		want := proto.ServerHello{Name: hello.Name, Major: hello.Major, Minor: hello.Minor, Revision: hello.Revision}
		if neg >= refwire.RevTimezone {
			want.Timezone = hello.Timezone
		}
		if neg >= refwire.RevDisplayName {
			want.DisplayName = hello.DisplayName
		}
		if neg >= refwire.RevVersionPatch {
			want.Patch = hello.Patch
		}
		if got := cl.ServerInfo(); got != want {
			return Outcome{Key: "C13/server-info", Detail: fmt.Sprintf("ServerInfo() = %+v, the server sent %+v", got, want)}
		}
		// a query must now be spoken at min(client, server)
		w := Wire{Rev: neg}
		hsLen := len(hs)
		prog := refwire.Progress{Rows: 3, Bytes: 24, TotalRows: 9, WroteRows: 4, WroteBytes: 5, ElapsedNs: 77}
		cc := &Conn{C: conn, Cl: cl, W: w, HsLen: hsLen}
		cc.RunPeer("peer2", hsLen, []Step{{Name: "await", AwaitN: 2}, {Name: "progress", Send: w.Progress(prog)},
			{Name: "header", Send: w.Data(0, Col("v", "UInt64"))}, {Name: "rows", Send: w.Data(2, Col("v", "UInt64", U64(5), U64(6)))}, {Name: "eos", Send: EOS()}}, nil)
		var col proto.ColUInt64
		var gotProg []proto.Progress
		var rows []uint64
		derr := cl.Do(context.Background(), ch.Query{Body: "SELECT v", QueryID: "after-handshake", Result: proto.Results{{Name: "v", Data: &col}},
			Settings:   []ch.Setting{{Key: "k", Value: "v"}},
			OnProgress: func(ctx context.Context, p proto.Progress) error { gotProg = append(gotProg, p); return nil },
			OnResult:   func(ctx context.Context, b proto.Block) error { rows = append(rows, col...); return nil }})
		out := conn.Snapshot()[hsLen:]
		pk, rest, perr := ParseClient(out, w)
		if derr != nil || perr != nil || rest != len(out) || len(pk) != 2 || pk[0].Query == nil || pk[0].Query.ID != "after-handshake" || (neg >= refwire.RevClientWriteInfo && pk[0].Query.Info.Revision != neg) {
			return Outcome{Key: "C13/query-not-at-negotiated-revision", Detail: fmt.Sprintf("client %d / server %d: query after the handshake: err=%v, parse at revision %d: err=%v packets=%v", k.crev, k.srev, derr, neg, perr, pk)}
		}
		if neg >= refwire.RevSettingsAsStrings && (len(pk[0].Query.Settings) != 1 || pk[0].Query.Settings[0].Key != "k") {
			return Outcome{Key: "C13/query-settings", Detail: fmt.Sprintf("settings on the wire at %d: %+v", neg, pk[0].Query.Settings)}
		}
		np := prog.Norm(neg)
		if len(gotProg) != 1 || gotProg[0] != (proto.Progress{Rows: np.Rows, Bytes: np.Bytes, TotalRows: np.TotalRows, WroteRows: np.WroteRows, WroteBytes: np.WroteBytes, ElapsedNs: np.ElapsedNs}) || len(rows) != 2 || rows[0] != 5 || rows[1] != 6 {
			return Outcome{Key: "C13/reply-not-at-negotiated-revision", Detail: fmt.Sprintf("progress %+v (want %+v) rows %v", gotProg, np, rows)}
		}
		return Outcome{Obs: "ok:" + k.resp}
	}
}

// C13 — handshake negotiates min(client, server) revision and fails cleanly.
func C13(c *vk.Ctx) {
	c.Rule("client revision x server revision over the threshold-neighbour revision set (every interval between consecutive feature revisions plus both neighbours of each threshold; client <= 54460, server <= 54480) with a well-formed hello; {hello delayed by read timeout + 1 s, by 2.5 and 4.2 read timeouts, until half a read timeout and until 10 ms before the handshake timeout, exception, exception followed at once by the close (end of stream reported together with its last bytes), Pong, Data, garbage, immediate cut, silence until the handshake timeout, hello truncated at every byte, a hello or an exception that stops in the middle while the connection stays up (with the default read time-out and with none)} x a diagonal of revision pairs; 4 credential / database / quota-key string sets; through Connect and through Dial with a simulated dialer. The reference peer writes its hello with the fields defined at min(client, server). After a successful handshake a query is executed and its packets are parsed / rendered by the reference model at min(client, server). distinct_nontrivial = cases.")
	crevs := refwire.RevSet(50000, 54460)
	srevs := refwire.RevSet(50000, 54480)
	run := func(k c13case, group string) {
		id := k.id()
		if !c.Next(id) {
			return
		}
		c.Current(id)
		x := RunOnce(nil, c.Only != "", body13(k))
		e := &Explorer{Scenario: id, KeyBase: "C13/engine"}
		key, detail := e.verdict(&x)
		c.Eval(group, 1)
		c.DistinctN(1)
		c.Outcome(x.Out.Obs)
		if key != "" {
			c.Violation(key, id, detail, nil)
		}
		if c.Only != "" {
			fmt.Printf("replay %s: key=%q %s\n", id, key, detail)
			for _, l := range x.Trace() {
				fmt.Println("   ", l)
			}
		}
	}
	for _, cr := range crevs {
		for _, sr := range srevs {
			run(c13case{crev: cr, srev: sr, resp: "hello"}, "revision pairs")
			if !c.Quick() {
				run(c13case{crev: cr, srev: sr, resp: "hello", dial: true, cred: 1}, "revision pairs (Dial)")
			}
		}
	}
	// fault responses on a diagonal + corners of the revision grid
	type pair struct{ c, s int }
	var pairs []pair
	for i, cr := range crevs {
		pairs = append(pairs, pair{cr, srevs[i%len(srevs)]})
	}
	pairs = append(pairs, pair{54460, 54460}, pair{54460, 50000}, pair{50000, 54480}, pair{54460, 54480}, pair{54429, 54372})
	if c.Quick() {
		var p2 []pair
		for i, p := range pairs {
			if i%4 == 0 || i >= len(pairs)-5 {
				p2 = append(p2, p)
			}
		}
		pairs = p2
	}
	for _, p := range pairs {
		for _, dial := range []bool{false, true} {
			for _, resp := range []string{"hello-late", "hello-late2", "hello-late3", "hello-last-window", "hello-last-moment", "exception", "exception-close", "pong", "data", "garbage", "cut", "silence"} {
				run(c13case{crev: p.c, srev: p.s, resp: resp, dial: dial}, "fault responses")
			}
			hb := ServerHello(func() refwire.ServerHello { h := baseHello; h.Revision = p.s; return h }(), p.c)
			for k := 0; k < len(hb); k++ {
				run(c13case{crev: p.c, srev: p.s, resp: "trunc", k: k, dial: dial}, "truncated hello")
			}
			// a peer that stops in mid-answer without closing, with and without a read time-out:
			// the handshake time-out has to end the wait
			for _, nort := range []bool{false, true} {
				for _, k := range []int{1, 2, len(hb) / 2, len(hb) - 1} {
					run(c13case{crev: p.c, srev: p.s, resp: "trunc-stall", k: k, dial: dial, nort: nort}, "stalled answer")
				}
				run(c13case{crev: p.c, srev: p.s, resp: "exception-stall", dial: dial, nort: nort}, "stalled answer")
				run(c13case{crev: p.c, srev: p.s, resp: "silence", dial: dial, nort: nort}, "stalled answer")
			}
		}
	}
	for cred := 1; cred < len(creds); cred++ {
		for _, dial := range []bool{false, true} {
			for _, p := range []pair{{54460, 54460}, {54460, 54457}, {54300, 54460}} {
				run(c13case{crev: p.c, srev: p.s, resp: "hello", cred: cred, dial: dial}, "credential strings")
				run(c13case{crev: p.c, srev: p.s, resp: "exception", cred: cred, dial: dial}, "credential strings")
			}
		}
	}
	c.Sample(map[string]any{"case": c13case{crev: 54460, srev: 54372, resp: "hello"}.id(), "negotiated": 54372, "server_hello_fields": "name, version, revision, timezone, display name (no patch: introduced at 54401)", "addendum": false})
}
