//go:build go1.25

package sched

import (
	"context"
	"errors"
	"fmt"
	"io"
	"strings"
	"time"

	ch "github.com/ClickHouse/ch-go"
	"github.com/ClickHouse/ch-go/proto"

	"verif/refwire"
	"verif/vk"
	"verif/vrt/vsched"
)

// scn is a query scenario: options, the query (with callbacks wired to fa) and the
// script of the reference peer.
type scn struct {
	name  string
	opt   ch.Options
	mk    func(c *Conn, fa *failAt) (ch.Query, []Step)
	fails bool // the query fails on the client side by construction
	// prelude: the client has a history when the scenario starts — an earlier query on the
	// same client that ended with a server exception ("exception") or well ("ok")
	prelude string
	// closeErr: the transport's Close tears the connection down but reports an error (as
	// crypto/tls does when its close_notify cannot be written)
	closeErr bool
	// oneByte: the transport hands over one byte per Read, so every read of a packet body goes
	// to the connection (and arms its own deadline) instead of finding the bytes buffered
	oneByte bool
}

func withCloseErr(s scn) scn {
	s.name += "-close-reports-error"
	s.closeErr = true
	return s
}

// withHistory derives the scenario that runs s on a client with a history.
func withHistory(s scn, pre string) scn {
	s.name += "-after-" + pre
	s.prelude = pre
	return s
}

func u64col(name string, v ...uint64) any {
	vals := make([]any, len(v))
	for i, x := range v {
		vals[i] = U64(x)
	}
	return Col(name, "UInt64", vals...)
}

func scenarios() []scn {
	sel := func(opt ch.Options, telemetry bool) func(c *Conn, fa *failAt) (ch.Query, []Step) {
		return func(c *Conn, fa *failAt) (ch.Query, []Step) {
			var col proto.ColUInt64
			q := ch.Query{Body: "SELECT v FROM t", QueryID: "q-select",
				Result:     proto.Results{{Name: "v", Data: &col}},
				OnResult:   func(ctx context.Context, b proto.Block) error { return fa.hit() },
				OnProgress: func(ctx context.Context, p proto.Progress) error { return fa.hit() },
				OnProfile:  func(ctx context.Context, p proto.Profile) error { return fa.hit() },
			}
			w := c.W
			steps := []Step{
				{Name: "await-query", AwaitN: 2},
				{Name: "header", Send: w.Data(0, Col("v", "UInt64"))},
				{Name: "rows", Send: w.Data(3, Col("v", "UInt64", U64(1), U64(2), U64(3)))},
				{Name: "progress", Send: w.Progress(refwire.Progress{Rows: 3, Bytes: 24, TotalRows: 3})},
				{Name: "end-block", Send: w.EndBlock()},
				{Name: "profile", Send: w.Profile(refwire.Profile{Rows: 3, Blocks: 1, Bytes: 24})},
				{Name: "eos", Send: EOS(), Term: true},
			}
			if telemetry {
				q.OnLogs = func(ctx context.Context, l []ch.Log) error { return fa.hit() }
				q.OnProfileEvents = func(ctx context.Context, e []ch.ProfileEvent) error { return fa.hit() }
				steps = []Step{
					{Name: "await-query", AwaitN: 2},
					{Name: "log", Send: w.Log(LogRow{Time: 1700000000, Host: "h", QueryID: "q-select", ThreadID: 7, Priority: 6, Source: "executeQuery", Text: "hello"}, LogRow{Time: 1700000001, Text: "second"})},
					{Name: "header", Send: w.Data(0, Col("v", "UInt64"))},
					{Name: "events", Send: w.ProfileEvents(EventRow{Host: "h", Time: 1700000000, ThreadID: 7, Type: 1, Name: "Query", Value: 1}, EventRow{Host: "h", Type: 2, Name: "Mem", Value: -5})},
					{Name: "rows", Send: w.Data(2, Col("v", "UInt64", U64(10), U64(20)))},
					{Name: "progress", Send: w.Progress(refwire.Progress{Rows: 2, Bytes: 16})},
					{Name: "eos", Send: EOS(), Term: true},
				}
			}
			return q, steps
		}
	}
	ins := func(streamed bool) func(c *Conn, fa *failAt) (ch.Query, []Step) {
		return func(c *Conn, fa *failAt) (ch.Query, []Step) {
			col := &proto.ColUInt64{1, 2, 3}
			q := ch.Query{Body: "INSERT INTO t VALUES", QueryID: "q-insert", Input: proto.Input{{Name: "v", Data: col}},
				OnProgress: func(ctx context.Context, p proto.Progress) error { return fa.hit() }}
			w := c.W
			nData := 4 // query, blank, block, blank
			if streamed {
				round := 0
				q.OnInput = func(ctx context.Context) error {
					if err := fa.hit(); err != nil {
						return err
					}
					round++
					col.Reset()
					if round == 2 {
						return io.EOF
					}
					col.Append(uint64(100 + round))
					return nil
				}
				nData = 5
			}
			steps := []Step{
				{Name: "await-query", AwaitN: 2},
				{Name: "table-columns", Send: w.TableColumns(refwire.TableColumns{First: "", Second: "columns format version: 1\n1 columns:\n`v` UInt64\n"})},
				{Name: "schema", Send: w.Data(0, Col("v", "UInt64"))},
				{Name: "await-data", AwaitN: nData},
				{Name: "progress", Send: w.Progress(refwire.Progress{WroteRows: 3, WroteBytes: 24})},
				{Name: "eos", Send: EOS(), Term: true},
			}
			return q, steps
		}
	}
	lz4 := ch.Options{Compression: ch.CompressionLZ4}
	return []scn{
		{name: "insert", opt: ch.Options{}, mk: ins(false)},
		{name: "insert-stream", opt: ch.Options{}, mk: ins(true)},
		{name: "insert-lz4", opt: lz4, mk: ins(false)},
		{name: "select", opt: ch.Options{}, mk: sel(ch.Options{}, false)},
		{name: "select-lz4", opt: lz4, mk: sel(lz4, false)},
		{name: "select-telemetry", opt: ch.Options{}, mk: sel(ch.Options{}, true)},
		{name: "insert-stream-zstd", opt: ch.Options{Compression: ch.CompressionZSTD}, mk: ins(true)},
	}
}

// earlyProgress is an insert during which the server reports progress while the client is
// still sending (receiver and sender both active).
func earlyProgress() scn {
	return scn{name: "insert-early-progress", mk: func(c *Conn, fa *failAt) (ch.Query, []Step) {
		col := &proto.ColUInt64{1, 2, 3}
		q := ch.Query{Body: "INSERT INTO t VALUES", QueryID: "q-insert", Input: proto.Input{{Name: "v", Data: col}},
			OnProgress: func(ctx context.Context, p proto.Progress) error { return fa.hit() }}
		round := 0
		q.OnInput = func(ctx context.Context) error {
			if err := fa.hit(); err != nil {
				return err
			}
			round++
			col.Reset()
			if round == 2 {
				return io.EOF
			}
			col.Append(uint64(100 + round))
			return nil
		}
		w := c.W
		return q, []Step{
			{Name: "await-query", AwaitN: 2},
			{Name: "schema", Send: w.Data(0, Col("v", "UInt64"))},
			{Name: "progress1", Send: w.Progress(refwire.Progress{WroteRows: 1, WroteBytes: 8})},
			{Name: "await-first-block", AwaitN: 3},
			{Name: "progress2", Send: w.Progress(refwire.Progress{WroteRows: 2, WroteBytes: 16})},
			{Name: "await-data", AwaitN: 5},
			{Name: "eos", Send: EOS(), Term: true},
		}
	}}
}

// badRows is an insert whose input columns have different row counts: the sender fails
// inside encodeBlock after part of the block has already been chained into the writer.
func badRows() scn {
	return scn{name: "insert-bad-rows", fails: true, mk: func(c *Conn, fa *failAt) (ch.Query, []Step) {
		a := &proto.ColUInt64{1, 2}
		b := new(proto.ColStr)
		b.AppendArr([]string{"x", "y", "z"})
		q := ch.Query{Body: "INSERT INTO t VALUES", QueryID: "q-insert", Input: proto.Input{{Name: "v", Data: a}, {Name: "s", Data: b}}}
		w := c.W
		return q, []Step{
			{Name: "await-query", AwaitN: 2},
			{Name: "schema", Send: w.Data(0, Col("v", "UInt64"), Col("s", "String"))},
			{Name: "gap", Gap: 500 * time.Millisecond},
			{Name: "eos", Send: EOS(), Term: true},
		}
	}}
}

// fault is one element of the outer fault enumeration.
type fault struct {
	kind string // none exc cut wfail callback unknown unexpected badblock
	k    int
	arg  int
}

func (f fault) String() string {
	if f.kind == "none" {
		return "none"
	}
	if f.kind == "unexpected" {
		return fmt.Sprintf("unexpected%d@%d", f.arg, f.k)
	}
	if f.kind == "wfailexc" {
		return fmt.Sprintf("wfail%d+exc@%d", f.arg, f.k)
	}
	if f.kind == "extradata" {
		return fmt.Sprintf("extradata%d@%d", f.arg, f.k)
	}
	if f.kind == "exccut" || f.kind == "excsilent" {
		return fmt.Sprintf("%s%d@%d", f.kind, f.arg, f.k)
	}
	return fmt.Sprintf("%s@%d", f.kind, f.k)
}

var curBound int

var excReadonly = refwire.Exception{Code: 164, Name: "DB::Exception", Message: "DB::Exception: readonly", Stack: "stack"}

// body04 builds the execution body of scenario s under fault f.
func body04(s scn, f fault, probe bool) Body {
	return func() Outcome {
		c, err := Connect(s.opt, baseHello)
		if err != nil {
			return Outcome{Key: "C04/" + s.name + "/handshake-failed", Detail: err.Error()}
		}
		defer vsched.Quiet(func() { _ = c.C.Close() })
		if msg := c.Prelude(s.prelude); msg != "" {
			return Outcome{Key: "C04/" + s.name + "/prelude-failed", Detail: msg}
		}
		if s.closeErr {
			c.C.CloseErr = errors.New("simnet: close_notify could not be written")
		}
		fa := &failAt{}
		var inj *Inject
		switch f.kind {
		case "cut":
			c.C.CutReadAt = c.HsIn + f.k
		case "cutreset":
			c.C.CutReadAt = c.HsIn + f.k
			c.C.CutReset = true
		case "stall":
			// the server falls silent for good after byte k of its answer and keeps the connection
			// up, under a context with a 30 s deadline: the call has to end (by the read time-out
			// inside a packet, by the deadline between packets), whatever packet the silence falls into
			c.C.StallReadAt = c.HsIn + f.k
		case "wfail":
			c.C.FailWriteAt = c.HsLen + f.k
		case "callback":
			fa.n = f.k
		case "callbackexc":
			fa.n = f.k
			fa.exc = true
		case "exc", "cancelexc":
			inj = &Inject{G: f.k, Stop: true, Bytes: c.W.Exception(excReadonly)}
		case "excdeep":
			// a well-formed exception whose chain of causes is long (130 entries): the client may
			// stay open only if it has read all of it
			chain := make([]refwire.Exception, 130)
			for i := range chain {
				chain[i] = excReadonly
				chain[i].Code = int32(261 + i%3) // first bytes 0x05.. : what a reader out of step would take for packet codes
			}
			inj = &Inject{G: f.k, Stop: true, Bytes: c.W.Exception(chain...)}
		case "wfailexc":
			// two faults: the client's write fails after byte arg and the server sends an exception
			c.C.FailWriteAt = c.HsLen + f.arg
			inj = &Inject{G: f.k, Stop: true, Bytes: c.W.Exception(excReadonly)}
		case "exccut":
			// two faults: the server starts an exception (a chain of two) and the stream ends
			// after arg bytes of it
			eb := c.W.Exception(excReadonly, excReadonly)
			n := f.arg
			if n > len(eb)-1 {
				n = len(eb) - 1
			}
			inj = &Inject{G: f.k, Cut: true, Bytes: eb[:n]}
		case "excsilent":
			// the server starts an exception and falls silent after arg bytes of it
			eb := c.W.Exception(excReadonly, excReadonly)
			n := f.arg
			if n > len(eb)-1 {
				n = len(eb) - 1
			}
			inj = &Inject{G: f.k, Stop: true, Bytes: eb[:n]}
		case "excbad":
			// an exception packet whose body cannot be decoded (string length 2^63), on a
			// connection that stays up
			eb := append([]byte{}, c.W.Exception(excReadonly)[:5]...)
			eb = append(eb, 0x80, 0x80, 0x80, 0x80, 0x80, 0x80, 0x80, 0x80, 0x80, 0x01)
			inj = &Inject{G: f.k, Stop: true, Bytes: append(eb, c.W.Exception(excReadonly)[6:]...)}
		case "extradata":
			// the server repeats its (zero-row) schema block arg times and carries on
			var eb []byte
			for i := 0; i < f.arg; i++ {
				eb = append(eb, c.W.Data(0, Col("v", "UInt64"))...)
			}
			inj = &Inject{G: f.k, Bytes: eb}
		case "unknown":
			inj = &Inject{G: f.k, Stop: true, Bytes: []byte{99}}
		case "unexpected":
			inj = &Inject{G: f.k, Stop: true, Bytes: []byte{byte(f.arg)}}
		case "badblock":
			b := c.W.RawData(1, refwire.Column{Name: "v", Type: "Foo", Body: U64(1)})
			if c.W.Compressed {
				b = c.W.Data(1, Col("v", "UInt64", U64(1)))
				b[len(b)-1] ^= 0x40 // breaks the frame checksum
			}
			inj = &Inject{G: f.k, Stop: true, Bytes: b}
		}
		q, steps := s.mk(c, fa)
		c.RunPeer("peer", c.HsLen, steps, inj)
		ctx := context.Background()
		if f.kind == "cancelexc" {
			// two faults: the caller cancels at some point and the server answers with an exception
			var cancel context.CancelFunc
			ctx, cancel = context.WithCancel(ctx)
			defer cancel()
			vsched.Go("canceller", func() {
				vsched.PointCtxWrite("cancel")
				cancel()
			})
		}
		stallDeadline := 30 * time.Second
		if f.kind == "stall" {
			// a server that falls silent BETWEEN packets is only slow, and waiting for it is right;
			// the caller's own deadline ends that wait. Inside a packet the read time-out must end
			// it much earlier; what must never happen is a read that nothing bounds
			at := time.Now().Add(stallDeadline)
			vsched.RegisterTimer(at)
			var cancel context.CancelFunc
			ctx, cancel = context.WithDeadline(ctx, at)
			defer cancel()
		}
		t0, st0 := time.Now(), vsched.Stolen()
		derr := c.Cl.Do(ctx, q)
		el := time.Since(t0) - (vsched.Stolen() - st0)
		name := "C04/" + s.name
		limit := 3*time.Second + time.Second + time.Second
		if f.kind == "stall" {
			limit += stallDeadline
		}
		if derr != nil && el > limit {
			return Outcome{Key: name + "/slow-return", Detail: fmt.Sprintf("Do returned %v after %v of fake time (limit %v)", derr, el, limit), Obs: "slow"}
		}
		obs := errClass(derr)
		if !probe {
			return Outcome{Obs: obs}
		}
		pr := c.Probe(name)
		return Outcome{Obs: obs + " " + pr.Obs, Key: pr.Key, Detail: pr.Detail}
	}
}

// measure runs the fault-free scenario once and returns the sizes needed to enumerate
// byte-position and callback faults.
func measure(s scn) (serverBytes, clientBytes, callbacks, termGate int, broken *Exec) {
	var fa *failAt
	x := RunOnce(nil, true, func() Outcome {
		c, err := Connect(s.opt, baseHello)
		if err != nil {
			return Outcome{Key: "connect"}
		}
		if msg := c.Prelude(s.prelude); msg != "" {
			return Outcome{Key: "prelude-failed", Detail: msg}
		}
		fa = &failAt{}
		q, steps := s.mk(c, fa)
		for i, st := range steps {
			serverBytes += len(st.Send)
			if st.Term {
				termGate = i
			}
		}
		c.RunPeer("peer", c.HsLen, steps, nil)
		derr := c.Cl.Do(context.Background(), q)
		clientBytes = c.C.OutLen() - c.HsLen
		pr := c.Probe("measure")
		if (derr != nil) != s.fails || pr.Key != "" {
			return Outcome{Key: "fault-free-run-failed", Detail: fmt.Sprint(derr, pr.Key, pr.Detail)}
		}
		return Outcome{Obs: "ok"}
	})
	if x.Out.Key != "" || x.Deadlock || len(x.Panics) > 0 {
		// on the unchanged tree every scenario runs fault-free; if it does not, the tree under
		// verification broke it, and that is reported as a violation by the caller
		return serverBytes, clientBytes, 0, termGate, &x
	}
	return serverBytes, clientBytes, fa.calls, termGate, nil
}

// C04 — a failed query leaves the client closed or exactly at a packet boundary.
func C04(c *vk.Ctx) {
	c.Rule("scenarios {insert, streamed insert, LZ4/ZSTD inserts, insert whose input columns disagree on the row count (the sender fails inside encodeBlock), select, LZ4 select, select with logs/profile events, and insert / select on a client whose previous query ended with a server exception (thorough: or ended well), and select (thorough: and insert) on a transport whose Close reports an error} x faults {server exception injected at every gate of the peer script, server stream cut (EOF and reset) after byte k, client write failing after byte k, callback j failing, unknown packet code / well-formed unexpected packet / undecodable block at every gate, the double faults caller-cancels + server exception and failing write + server exception at every gate, and a server exception (chain of two) that does not arrive whole: stream cut or server silent after every byte of it (quick: every 2nd / 5th byte), or with an undecodable body, at every gate} x all schedules of the sender, receiver, cancel-watch and peer threads (plus clock steps) up to the stated deviation bound; after Do returns the probe checks closed-or-boundary. distinct_nontrivial = executions (each is a distinct (scenario, fault, schedule) triple).")
	quick := c.Quick()
	scs := append(scenarios(), badRows())
	// the same on a client that already ran a query (non-initial client state)
	for _, s := range scenarios() {
		if s.name == "insert" || s.name == "select" {
			scs = append(scs, withHistory(s, "exception"))
			if !quick {
				scs = append(scs, withHistory(s, "ok"))
			}
		}
	}
	for _, s := range scenarios() {
		if s.name == "select" || (s.name == "insert" && !quick) {
			scs = append(scs, withCloseErr(s))
		}
	}
	type job struct {
		s     scn
		f     fault
		bound int
		split bool
	}
	var jobs []job
	for si, s := range scs {
		sb, cb, calls, term, broken := measure(s)
		if broken != nil {
			if c.Shard == 0 {
				key := broken.Out.Key
				if key == "" || key == "fault-free-run-failed" || key == "connect" {
					key = "fault-free-run-fails"
				}
				key = strings.TrimPrefix(key, "measure/")
				c.Violation("C04/"+s.name+"/"+key, s.name+"/none@", fmt.Sprintf("the scenario does not even run without a fault: %s deadlock=%v panics=%v", broken.Out.Detail, broken.Deadlock, broken.Panics), nil)
			}
			continue
		}
		heavy := si < 3 // the three insert scenarios: exception injection explored deepest
		core := s.name == "insert" || s.name == "select" || s.name == "select-lz4"
		for g := 0; g <= term; g++ {
			switch {
			case !quick:
				b := 1
				if heavy {
					b = 2
				}
				jobs = append(jobs, job{s, fault{kind: "exc", k: g}, b, b >= 2})
				if !heavy {
					jobs = append(jobs, job{s, fault{kind: "exc", k: g}, 2, true})
				}
			case s.name == "insert" && (g == 2 || g == 3):
				jobs = append(jobs, job{s, fault{kind: "exc", k: g}, 2, true})
			default:
				jobs = append(jobs, job{s, fault{kind: "exc", k: g}, 1, false})
			}
			if core {
				jobs = append(jobs, job{s, fault{kind: "excdeep", k: g}, 0, false})
			}
		}
		stride := 1
		bb := 1
		if quick {
			stride, bb = 4, 0
		}
		for k := 0; k < sb; k++ {
			if k%stride == 0 || k == sb-1 {
				jobs = append(jobs, job{s, fault{kind: "cut", k: k}, bb, false})
			}
		}
		for k := 0; k < sb; k += 7 {
			jobs = append(jobs, job{s, fault{kind: "cutreset", k: k}, bb, false})
		}
		if core || s.name == "select-telemetry" {
			for k := 0; k < sb; k++ {
				jobs = append(jobs, job{s, fault{kind: "stall", k: k}, 0, false})
			}
		}
		for k := 0; k < cb; k++ {
			if k%stride == 0 || k == cb-1 {
				jobs = append(jobs, job{s, fault{kind: "wfail", k: k}, bb, false})
			}
		}
		gb := 1
		if !quick {
			gb = 2
		}
		for j := 1; j <= calls; j++ {
			jobs = append(jobs, job{s, fault{kind: "callback", k: j}, gb, false})
			// the same callback failing with an error that wraps a server exception of another
			// connection: it is still a local failure in the middle of this stream
			jobs = append(jobs, job{s, fault{kind: "callbackexc", k: j}, 0, false})
		}
		for g := 0; g <= term; g++ {
			b := gb
			if quick && !core {
				b = 0
			}
			jobs = append(jobs, job{s, fault{kind: "unknown", k: g}, b, false})
			jobs = append(jobs, job{s, fault{kind: "badblock", k: g}, b, false})
			for _, code := range []int{0, 4, 8, 9, 12, 13} {
				ub := 0
				if !quick || (core && code == 4) {
					ub = 1
				}
				jobs = append(jobs, job{s, fault{kind: "unexpected", k: g, arg: code}, ub, false})
			}
		}
		jobs = append(jobs, job{s, fault{kind: "none"}, gb, false})
		// a server that sends more (header) blocks than the exchange calls for
		if strings.HasPrefix(s.name, "insert") {
			for g := 0; g <= term; g++ {
				for _, n := range []int{1, 2, 3} {
					jobs = append(jobs, job{s, fault{kind: "extradata", k: g, arg: n}, bb, false})
				}
			}
		}
		// an exception that does not arrive whole: cut or silence after every byte of it,
		// or a body that cannot be decoded
		{
			excLen := len(Wire{}.Exception(excReadonly, excReadonly))
			estride := 1
			if quick {
				estride = 5
				if core {
					estride = 2
				}
			}
			for g := 0; g <= term; g++ {
				if quick && !core && g != term && g != 1 {
					continue
				}
				for n := 1; n < excLen; n++ {
					if n%estride != 0 && n != 1 && n != excLen-1 {
						continue
					}
					jobs = append(jobs, job{s, fault{kind: "exccut", k: g, arg: n}, 0, false})
					if !quick || (core && n%8 == 1) {
						jobs = append(jobs, job{s, fault{kind: "excsilent", k: g, arg: n}, 0, false})
					}
				}
				jobs = append(jobs, job{s, fault{kind: "excbad", k: g}, bb, false})
			}
		}
		// two faults together: a failing write and an exception from the server
		if s.name == "insert" || s.name == "insert-lz4" || !quick {
			for g := 0; g <= term; g++ {
				for k := 0; k < cb; k += 16 {
					// (the order in which the receiver handles the exception and the sender's write
					// fails matters: one preemption for the plain insert, thorough everywhere)
					wb := 0
					if s.name == "insert" || !quick {
						wb = 1
					}
					jobs = append(jobs, job{s, fault{kind: "wfailexc", k: g, arg: k}, wb, false})
				}
			}
		}
		// two faults together: cancellation by the caller and an exception from the server
		if s.name == "insert" || s.name == "insert-stream" || s.name == "insert-bad-rows" || !quick {
			for g := 0; g <= term; g++ {
				cb := 1
				if quick && s.name != "insert-bad-rows" {
					cb = 0
				}
				jobs = append(jobs, job{s, fault{kind: "cancelexc", k: g}, cb, cb > 0})
			}
		}
	}
	if !quick {
		// deepest: the three exception scenarios once more at bound 3 under the budget
		for si := 0; si < 3; si++ {
			_, _, _, term, broken := measure(scs[si])
			if broken != nil {
				continue
			}
			for g := 0; g <= term; g++ {
				jobs = append(jobs, job{scs[si], fault{kind: "exc", k: g}, 3, true})
			}
		}
	}
	minBound := 99
	n := int64(0)
	for _, j := range jobs {
		id := j.s.name + "/" + j.f.String()
		var replay []int
		if c.Only != "" {
			sid, chs := SplitCase(c.Only)
			if sid != id {
				continue
			}
			replay = ParseChoices(chs)
		} else if !j.split && !c.Mine(n) {
			n++
			continue
		}
		n++
		c.Current(id)
		curBound = j.bound
		e := &Explorer{C: c, Scenario: id, KeyBase: "C04/" + j.s.name, Body: body04(j.s, j.f, true), Split: j.split}
		if c.Only != "" {
			x := e.Replay(replay)
			k, d := e.verdict(&x)
			fmt.Printf("replay %s: obs=%q key=%q %s\n", c.Only, x.Out.Obs, k, d)
			for _, l := range x.Trace() {
				fmt.Println("   ", l)
			}
			if k != "" {
				c.Violation(k, c.Only, d, nil)
			}
			c.Eval("replay", 1)
			return
		}
		st := e.Run(j.bound)
		grp := j.f.kind
		if grp == "exc" {
			grp = fmt.Sprintf("exc:%s:bound%d", j.s.name, j.bound)
		}
		Account(c, grp, st)
		c.DistinctN(st.Executions)
		if st.BoundDone < minBound {
			minBound = st.BoundDone
		}
		if st.FirstSample != nil && (j.f.kind == "exc" && j.f.k == 3) {
			c.Sample(map[string]any{"scenario": id, "bound": j.bound, "executions": st.Executions, "default_schedule_trace": tailS(st.FirstSample.Trace(), 60), "outcomes": st.Outcomes})
		}
		if c.OverBudget() {
			break
		}
	}
	if minBound == 99 {
		minBound = 0
	}
	c.SetBound(minBound)
	if quick {
		c.Note("quick deviation bounds: exception injection = 1 at every gate of every scenario and 2 at the gates of `insert` around the schema exchange; failing callbacks = 1; unknown / undecodable packets = 1 (insert, select, select-lz4) else 0; unexpected packets = 0 (Pong: 1); byte-position faults = 0 at every 4th byte")
	} else {
		c.Note("thorough deviation bounds: exception injection = 2 at every gate of every scenario, 3 for the three plain insert scenarios under the budget; other gate faults = 2 (unexpected packets 1); byte-position faults = 1 at every byte")
	}
}
