//go:build go1.25

package sched

import (
	"fmt"
	"time"

	"verif/refwire"
	"verif/vk"
)

// C08 — decoding is independent of how the transport segments the byte stream.
func C08(c *vk.Ctx) {
	c.Rule("server streams = all scripts of length <= n (quick 2, thorough 3) over the C03 packet alphabet, rendered at revisions 54460 and 54405, plain and LZ4, typed and Auto binding; segmentations of each stream: one byte per read, every two-piece split (all offsets), the same deliveries with the server closing right after its last byte and the transport returning the end of the stream together with the last bytes (n > 0 with io.EOF, as crypto/tls does), every two-piece split with 2 s of idle time before each piece (each wait inside the read timeout, the packet as a whole not), an idle gap longer than the read timeout before every packet (clock steps, read deadline fires and is retried), also under a context whose deadline is an hour away, every two-piece split and bytewise delivery on a client with a past (connected longer ago than the handshake time-out; an earlier query under a 10 s context whose deadline has passed since), for streams <= 16 bytes all 2^(n-1) segmentations, and (thorough) every three-piece split of streams <= 96 bytes. Each case is one execution of the real Connect + Do; oracle: callback trace and return value equal the reference interpreter's, i.e. the unsegmented outcome; and (all groups but the gap, idle and end-of-stream ones) a Ping issued on the same client afterwards, answered by the peer once it has seen it, ends the same way as after the same stream delivered in one piece, and succeeds when the stream ends with its terminating packet (what Do left unread is the same bytes wherever they sit: transport or read-ahead buffer). distinct_nontrivial = (stream, segmentation) cases.")
	quick := c.Quick()
	maxLen := 2
	if !quick {
		maxLen = 3
	}
	eos := alphabet[len(alphabet)-1]
	var scripts [][]pk
	var rec func(pre []pk)
	rec = func(pre []pk) {
		scripts = append(scripts, append(append([]pk{}, pre...), eos))
		if len(pre) == maxLen {
			return
		}
		for _, a := range alphabet {
			if a.sym == "Xd" {
				continue // a 2.5 KB packet: cutting it at every offset in every script multiplies the space by seven; its delivery is C03's
			}
			if quick && (a.sym == "P0" || a.sym == "Pw" || a.sym == "Pe" || a.sym == "F0") {
				continue // payload variants of packets already in the alphabet: thorough tier (C03 has them in both)
			}
			rec(append(pre, a))
		}
	}
	rec(nil)
	// the request after the one under test: its outcome with the stream delivered in one
	// piece is the reference for every other segmentation of the same stream
	followRef := map[string]string{}
	run := func(k c03case, sg seg, group, segID string) {
		id := k.id() + "/seg=" + segID
		if !c.Next(id) {
			return
		}
		c.Current(id)
		sg.follow = !sg.gaps && !sg.closing && sg.inner == 0
		x := RunOnce(nil, c.Only != "", body03seg(k, sg, "C08"))
		e := &Explorer{Scenario: id, KeyBase: "C08/engine"}
		key, detail := e.verdict(&x)
		if key == "" && sg.follow {
			ref, ok := followRef[k.id()]
			if !ok {
				rx := RunOnce(nil, false, body03seg(k, seg{follow: true}, "C08"))
				if rk, _ := e.verdict(&rx); rk == "" {
					ref = rx.Out.Aux
				} else {
					ref = "?" // the undivided delivery fails on its own: reported by the two-piece group, nothing to compare with here
				}
				followRef[k.id()] = ref
				c.Eval("next-request-reference", 1)
				// absolute part: when the terminating packet (first Exception / EndOfStream)
				// is the last one of the stream, nothing is left unread and the client stays
				// open, so the Ping must simply succeed
				term := len(k.script) - 1
				for i, p := range k.script {
					if p.kind == "exc" || p.kind == "eos" {
						term = i
						break
					}
				}
				if ref != "?" && term == len(k.script)-1 && ref != "ping=nil closed-after=false" {
					c.Violation("C08/next-request-fails/"+group, k.id()+"/seg=whole", fmt.Sprintf("the stream ends with its terminating packet, so nothing is left unread; the Ping issued on the same client after Do ended with %q", ref), nil)
				}
			}
			if ref != "?" && x.Out.Aux != ref {
				key, detail = "C08/next-request-differs", fmt.Sprintf("the Ping issued on the same client after Do ended with %q; with the same server stream delivered in one piece it ends with %q", x.Out.Aux, ref)
			}
		}
		c.Eval(group, 1)
		c.DistinctN(1)
		c.Outcome(x.Out.Obs)
		if key != "" {
			c.Violation(key+"/"+group, id, detail, nil)
		}
		if c.Only != "" {
			fmt.Printf("replay %s: key=%q %s\n", id, key, detail)
		}
	}
	for _, s := range scripts {
		for _, rev := range []int{ServerRev, refwire.RevServerLogs - 1} {
			ok := true
			for _, p := range s {
				if p.min > rev {
					ok = false
				}
			}
			if !ok {
				continue
			}
			for _, lz4 := range []bool{false, true} {
				for _, b := range []string{"typed", "auto"} {
					if b == "auto" && (lz4 || rev != ServerRev) {
						continue
					}
					k := c03case{script: s, lz4: lz4, binding: b, rev: rev, cb: cbSet{have: "RPFEL"}}
					w := Wire{Rev: rev, Compressed: lz4, Method: refwire.MethodLZ4}
					n := 0
					for _, p := range s {
						n += len(p.bytes(w, 0))
					}
					run(k, seg{oneByte: true}, "one-byte", "1b")
					run(k, seg{gaps: true}, "gaps", "gaps")
					// the same idle gaps under a context whose deadline is an hour away: a read
					// timeout between packets is still only a reason to wait again
					run(k, seg{gaps: true, far: true}, "gaps", "gaps-far-deadline")
					for i := 1; i < n; i++ {
						run(k, seg{cuts: []int{i}}, "two-piece", fmt.Sprintf("%d", i))
					}
					// idle time inside packets: two pieces at every offset, each after 2 s without a byte
					// (every wait is inside the 3 s read timeout, the whole packet is not)
					if !quick || (!lz4 && b == "typed" && rev == ServerRev) {
						for i := 1; i < n; i++ {
							run(k, seg{cuts: []int{i}, inner: 2 * time.Second}, "idle-inside-packet", fmt.Sprintf("idle-%d", i))
						}
					}
					// a client with a past: connected long ago, or an earlier query under a context
					// whose deadline has passed since; then the stream in two pieces and bytewise
					if !quick || (!lz4 && b == "typed" && rev == ServerRev) {
						for _, pre := range []string{"idle", "ok+idle"} {
							kp := k
							kp.pre = pre
							run(kp, seg{oneByte: true}, "client-with-a-past", "1b")
							for i := 1; i < n; i++ {
								run(kp, seg{cuts: []int{i}}, "client-with-a-past", fmt.Sprintf("%d", i))
							}
						}
					}
					// the server closes right after its last byte and the transport reports the end
					// of the stream together with the last bytes (n > 0 with io.EOF)
					run(k, seg{closing: true}, "eof-with-last-bytes", "eof")
					run(k, seg{closing: true, oneByte: true}, "eof-with-last-bytes", "eof-1b")
					for i := 1; i < n; i++ {
						run(k, seg{cuts: []int{i}, closing: true}, "eof-with-last-bytes", fmt.Sprintf("eof-%d", i))
					}
					if n <= 16 {
						for m := 0; m < 1<<(n-1); m++ {
							var cuts []int
							for i := 1; i < n; i++ {
								if m&(1<<(i-1)) != 0 {
									cuts = append(cuts, i)
								}
							}
							run(k, seg{cuts: cuts}, "all-segmentations", fmt.Sprintf("m%x", m))
						}
					}
					if !quick && n <= 96 {
						for i := 1; i < n; i++ {
							for j := i + 1; j < n; j++ {
								run(k, seg{cuts: []int{i, j}}, "three-piece", fmt.Sprintf("%d.%d", i, j))
							}
						}
					}
				}
			}
		}
	}
	c.Sample(map[string]any{"stream": "Progress . EndOfStream at revision 54460 (8 bytes)", "segmentations": "all 128 subsets of the 7 cut positions, one byte per read, gap > read timeout before each packet"})
}
