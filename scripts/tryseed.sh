#!/bin/bash
# Applies a seeded change to /repo, runs the named checks (quick tier), restores /repo.
# usage: tryseed.sh <patch.diff> <Cxx> [Cyy ...]     -> prints per check: caught / MISSED
cd "$(dirname "$0")/.."
PATCH=$1; shift
if [ -n "$(git -C /repo status --porcelain --untracked-files=no)" ]; then echo "tryseed: /repo is not clean"; exit 2; fi
git -C /repo apply "$PATCH" || { echo "tryseed: patch does not apply"; exit 2; }
trap 'git -C /repo checkout -- . ' EXIT
for p in "$@"; do
  out=$(bin/vcheck run $p --tier ${TIER:-quick} 2>&1); rc=$?
  nv=$(echo "$out" | grep -c '^VIOLATION')
  if [ $rc -eq 1 ] && [ $nv -gt 0 ]; then
    echo "$p: CAUGHT ($nv violation keys)"; echo "$out" | grep -A2 '^VIOLATION' | grep 'key=' | head -4 | cut -c1-260
  elif [ $rc -eq 0 ]; then echo "$p: MISSED (exit 0)"
  else echo "$p: exit=$rc"; echo "$out" | tail -5 | cut -c1-300; fi
done
