#!/bin/bash
# Confirms a seeded change independently: fresh scratch worktree of /repo HEAD, apply the
# patch, build, run the repository's whole suite (must pass), run the demonstration (must
# fail), revert the patch, run the demonstration again (must pass). The worktree is removed.
# usage: confirmseed.sh <patch.diff> <demo file> <demo destination relative to repo> <go test pkg> <test run regexp> [extra go test flags]
set -u
export GOFLAGS=-mod=mod GOPROXY=off GOSUMDB=off GOTOOLCHAIN=local
PATCH=$1; DEMO=$2; DEST=$3; PKG=$4; RUN=$5; shift 5
WT=/tmp/wt/confirm.$$
git -C /repo worktree add --detach -q $WT HEAD || exit 2
trap 'git -C /repo worktree remove --force $WT' EXIT
cd $WT
git apply "$PATCH" || { echo "CONFIRM: patch does not apply"; exit 2; }
go build ./... || { echo "CONFIRM: does not build"; exit 1; }
/verif/scripts/baseline.sh $WT | head -3
cp "$DEMO" "$WT/$DEST"
echo "--- demo WITH the change (expect FAIL)"
go test -vet=off -count=1 "$@" -run "$RUN" $PKG 2>&1 | tail -4
with=$?
git apply -R "$PATCH"
echo "--- demo WITHOUT the change (expect ok)"
go test -vet=off -count=1 "$@" -run "$RUN" $PKG 2>&1 | tail -3
