#!/usr/bin/env python3
"""Stores a confirmed seeded change under seeded/<id>/ (patch.diff, demo, meta.json)."""
import json, os, shutil, sys
sid, patch, demo, prop, needs, origin, caught_by, notes = sys.argv[1:9]
d = os.path.join(os.path.dirname(os.path.dirname(os.path.abspath(__file__))), "seeded", sid)
os.makedirs(d, exist_ok=True)
shutil.copy(patch, os.path.join(d, "patch.diff"))
shutil.copy(demo, os.path.join(d, os.path.basename(demo).replace(".txt", "") + ".txt"))
meta = {"id": sid, "property": prop, "origin": origin, "needs_to_manifest": needs, "caught_by": caught_by.split(","),
        "confirmed": "scripts/confirmseed.sh: patch applies to /repo HEAD, builds, repository suite 716/716 passes, demonstration fails with the change and passes without it",
        "checked": "scripts/tryseed.sh <patch> " + " ".join(caught_by.split(",")) + " (patch applied to /repo, quick tier, /repo restored afterwards)",
        "notes": notes}
json.dump(meta, open(os.path.join(d, "meta.json"), "w"), indent=1)
print("stored", d)
