#!/bin/bash
# One-time setup after a fresh restore (offline): builds the driver and instrumenter,
# regenerates the instrumented third-party copies and pre-builds every worker flavour so
# that the checks start from a warm build cache.
set -e
cd "$(dirname "$0")/.."
export GOFLAGS=-mod=mod GOPROXY=off GOSUMDB=off GOTOOLCHAIN=local
mkdir -p bin evidence work
go build -o bin/vcheck ./cmd/vcheck
go build -o bin/vinstr ./cmd/vinstr
bin/vcheck setup
