#!/usr/bin/env python3
"""Regenerates the table of DESIGN.md section 11.5 from evidence/*.json (numbers) and the
descriptions below. usage: python3 scripts/evtable.py   (rewrites DESIGN.md in place)"""
import json, os, re
root = os.path.dirname(os.path.dirname(os.path.abspath(__file__)))
DESC = {
 "C01": "1 011 compositions × sequences ≤ 2 × 5 revisions (each block feature's own revision and the one before) × 3 buffers, two builds; histories, second objects, server spellings, AutoResult targets, many rows, long strings",
 "C02": "≤ 2 deviations × 5 compressions + ≤ 1 deviation × 31 revisions × 2; large, empty and streamed inputs, empty external table, client histories",
 "C03": "scripts ≤ 3 over 20 packets (incl. a 40-deep exception chain) × 2 × 3 × 2, + revisions × callback sets, + failing callbacks, + client histories",
 "C04": "11 scenarios (2 with a client history) × 16 fault kinds (incl. long exception chains, callbacks failing with a foreign exception), bounds 0/1/2 as stated in the evidence",
 "C05": "lengths 0..512 × 4 × 16 methods, frame sequences, every-byte corruption, histories ≤ 4, proto.Reader over frames; workers under an address-space limit",
 "C06": "all depth ≤ 1 + 1/11 of depth 2 compositions × every offset × 60 mutations, other block shapes, hostile / huge / missing type parameters; 2 decoders",
 "C07": "every prefix of every corpus encoding (LowCardinality also with 16/32/64-bit keys), 7 framings; large values; many-row blocks",
 "C08": "scripts ≤ 2 × 2 revisions × {1-byte, all 2-splits, gaps (also under a far deadline), idle inside packets, all 2^(n-1) for ≤ 16 bytes, close-with-last-bytes, clients with a past}, each with the next request (Ping) compared against the undivided delivery; reader level",
 "C09": "histories ≤ 3 over 12 callback behaviours × 3 initial sizes × 6 columns × 2 × 2",
 "C10": "scenarios × cancel modes (cancel, deadlines, cancel under a far / near deadline) × 2 read time-outs; silent, chatty and bytewise servers; client histories; stall; handshake; bound 1",
 "C11": "pool scenarios at bound 1 (incl. broken idle transport, hold past lifetime) + stale-release sweep over 130 cycle counts",
 "C12": "scenarios under `-race` (incl. two clients from one Options value, external data, repeated header), bound 1; detector self-test",
 "C13": "2.6 k revision pairs + fault responses incl. every truncation and late-hello windows",
 "C14": "13^≤6 sequences × 4 capacities; path corpus with and without rows at 5 revisions; WriteColumn = EncodeColumn at 9 row counts for every base column",
 "C15": "35 codecs, exhaustive 8/16-bit; long inputs with truncations at the size steps; streams of two columns, 4 framings; writers with a non-empty buffer; two builds",
 "C16": "21 columns, depth 5 (enum re-inference, sibling-precision decode); histories with values > 1 MiB",
 "C17": "9 messages × ≤ 2 deviations × 61 revisions; all 256 trace flags; strings beyond 1 MiB",
 "C18": "schemas ≤ 2 of 29 kinds × ~60 target variants × 2; block pairs; triples against explicit ColAuto targets",
 "C19": "1.1 k types (+ ColAuto histories over 30 types), 24^≤5 token strings, single edits, 9^≤5 parameter strings × 10 families × 3, 10^6+ pairs",
 "C20": "all Date / Date32 days × 29 zones × 4 + every ingestion path, lattices (incl. special IPv6 blocks), interval spans + DST",
}
def short(n):
    if n >= 10_000_000: return f"{n/1e6:.0f} M"
    if n >= 1_000_000: return f"{n/1e6:.1f} M"
    if n >= 1000: return f"{n/1e3:.0f} k"
    return str(n)
rows, walls = [], []
for pid in sorted(DESC):
    ev = json.load(open(os.path.join(root, "evidence", pid + ".json")))
    cov = ev["coverage"]
    st = cov.get("states_explored") or cov.get("states") or 0
    rows.append(f"| {pid} | {DESC[pid]} | {short(cov.get('evaluations', 0))} | {short(st) if st else '—'} |")
    walls.append((ev.get("wall_s", 0), pid))
walls.sort(reverse=True)
table = "| id | space completed | executions / cases | states |\n|---|---|---|---|\n" + "\n".join(rows) + "\n"
tail = "Sum of the checks' own wall times in the last committed quick run: %.0f s (longest: %s)." % (sum(w for w, _ in walls), ", ".join(f"{p} {w:.0f} s" for w, p in walls[:4]))
p = os.path.join(root, "DESIGN.md")
s = open(p).read()
b, e = "<!-- EVTABLE:BEGIN -->\n", "<!-- EVTABLE:END -->\n"
i, j = s.index(b) + len(b), s.index(e)
s = s[:i] + table + "\n" + tail + "\n" + s[j:]
open(p, "w").write(s)
print(tail)
