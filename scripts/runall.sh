#!/bin/bash
# Runs every check's quick (or given) tier and validates MANIFEST + evidence against the schemas.
cd "$(dirname "$0")/.."
tier=${1:-quick}
fail=0
for i in $(seq -w 1 20); do
  p=C$i
  s=$(date +%s)
  out=$(bin/vcheck run $p --tier $tier 2>&1); rc=$?
  mkdir -p work/logs; echo "$out" > work/logs/$p.$tier.log   # full output for post-mortems (work/ is not committed)
  e=$(( $(date +%s) - s ))
  echo "$out" | grep "^$p \|^VIOLATION\|^KNOWN-FINDING\|HARNESS" | cut -c1-230
  echo "   -> exit=$rc wall=${e}s"
  [ $rc -ne 0 ] && fail=1
done
python3-vt - <<'PY'
import json, jsonschema, glob
import os
m=json.load(open('MANIFEST.json'))
jsonschema.validate(m, json.load(open('/root/.vp/MANIFEST.schema.json')))
es=json.load(open('/root/.vp/EVIDENCE.schema.json'))
for c in m['checks']:
    e=json.load(open(os.path.join('evidence', os.path.basename(c['evidence_file']))))
    jsonschema.validate(e, es)
    assert e['level']==c['level_claimed']['category'], c['property_id']
print("manifest + %d evidence files valid" % len(m['checks']))
PY
exit $fail
