#!/bin/bash
# Regression over every stored seeded change: applies seeded/<id>/patch.diff to /repo, runs
# the quick tier of the checks listed in its meta.json (caught_by), restores /repo, and
# prints one line per (seed, check). Exit 1 if a check listed as catching a seed misses it.
# usage: allseeds.sh [id ...]
cd "$(dirname "$0")/.."
ids=("$@"); [ ${#ids[@]} -eq 0 ] && ids=($(ls seeded))
rc=0
for id in "${ids[@]}"; do
  # every seeded tree is a fresh set of build-cache entries: keep the disk from filling up
  avail=$(df --output=avail -k / | tail -1)
  if [ "$avail" -lt 30000000 ]; then GOFLAGS=-mod=mod go clean -cache >/dev/null 2>&1; fi
  checks=$(python3 -c "import json;print(' '.join(json.load(open('seeded/$id/meta.json'))['caught_by']))")
  if [ -z "$checks" ]; then echo "$id  (recorded as not caught by any check: skipped)"; continue; fi
  out=$(scripts/tryseed.sh "$PWD/seeded/$id/patch.diff" $checks 2>&1 | grep -E '^(C[0-9]+: |tryseed)')
  while read -r line; do
    echo "$id  $line"
    case "$line" in *CAUGHT*) ;; *) rc=1;; esac
  done <<<"$out"
done
exit $rc
