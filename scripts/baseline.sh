#!/bin/bash
# Runs the repository's own test suite (hooks/guard off: /repo is used exactly as it is,
# no overlay, no build tag) and compares the passing set with /root/.vp/BASELINE.json.
# usage: scripts/baseline.sh [repo-dir]
export GOFLAGS=-mod=mod GOPROXY=off GOSUMDB=off GOTOOLCHAIN=local
REPO=${1:-/repo}
OUT=$(mktemp /tmp/baseline.XXXXXX.json)
trap 'rm -f $OUT' EXIT
for m in . ./internal/cmd/ch-dl; do
  (cd $REPO/$m && go test -mod=mod -json -vet=off -count=1 -timeout 25m ./...) >> $OUT 2>/dev/null
done
python3 - "$OUT" <<'PY'
import json, sys
passed, failed = set(), set()
for line in open(sys.argv[1], errors="replace"):
    line = line.strip()
    if not line.startswith("{"): continue
    try: ev = json.loads(line)
    except Exception: continue
    a, pkg, t = ev.get("Action"), ev.get("Package", ""), ev.get("Test")
    if t is None:
        if a == "fail": failed.add(pkg + "::[package-fail]")
        continue
    if a == "pass": passed.add(pkg + "::" + t)
    elif a == "fail": failed.add(pkg + "::" + t)
passed -= failed
base = set(json.load(open("/root/.vp/BASELINE.json"))["stable_pass"])
missing = sorted(base - passed)
print(f"baseline: {len(base)} expected, {len(passed & base)} passed, {len(missing)} missing, {len(failed)} failed")
for m in missing[:40]: print("  MISSING", m)
for m in sorted(failed)[:40]: print("  FAILED", m)
sys.exit(1 if missing or failed else 0)
PY
