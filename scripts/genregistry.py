#!/usr/bin/env python3
"""Generates checks/seq/regtab/registry_gen.go: one constructor per column composition, built
exactly as a user builds it with the exported generic constructors of package proto
(NewArray, NewColNullable, NewLowCardinality, NewMap, ColTuple). Typed generic columns
cannot be instantiated at run time, hence generated code.

usage: python3 scripts/genregistry.py [depth] > checks/seq/regtab/registry_gen.go"""
import sys

# (name, constructor expression, Go element type, comparable, scalar (may sit under Nullable / LowCardinality))
BASES = []
def base(name, ctor, gotype, comparable=True, scalar=True, nowrap=False):
    BASES.append(dict(name=name, ctor=ctor, go=gotype, cmp=comparable, scalar=scalar, depth=0, top=False, nowrap=nowrap))

for n in ["Int8", "Int16", "Int32", "Int64", "UInt8", "UInt16", "UInt32", "UInt64"]:
    base(n, f"new(proto.Col{n})", n.lower())
for n in ["Int128", "Int256", "UInt128", "UInt256"]:
    base(n, f"new(proto.Col{n})", f"proto.{n}")
base("Float32", "new(proto.ColFloat32)", "float32")
base("Float64", "new(proto.ColFloat64)", "float64")
base("String", "new(proto.ColStr)", "string")
base("Bytes", "new(proto.ColBytes)", "[]byte", comparable=False)
base("JSON", "new(proto.ColJSONStr)", "string")
base("FixedString(3)", "&proto.ColFixedStr{Size: 3}", "[]byte", comparable=False)
for n in [8, 16, 32]:
    base(f"FixedString({n})", f"new(proto.ColFixedStr{n})", f"[{n}]byte")
base("Bool", "new(proto.ColBool)", "bool")
base("UUID", "new(proto.ColUUID)", "uuid.UUID")
base("IPv4", "new(proto.ColIPv4)", "proto.IPv4")
base("IPv6", "new(proto.ColIPv6)", "proto.IPv6")
base("Date", "new(proto.ColDate)", "time.Time")
base("Date32", "new(proto.ColDate32)", "time.Time")
base("DateTime", "new(proto.ColDateTime)", "time.Time")
base("DateTime('UTC')", "&proto.ColDateTime{Location: time.UTC}", "time.Time")
for p in [0, 3, 6, 9]:
    base(f"DateTime64({p})", f"new(proto.ColDateTime64).WithPrecision({p})", "time.Time")
base("DateTime64(3, 'UTC')", "new(proto.ColDateTime64).WithPrecision(3).WithLocation(time.UTC)", "time.Time")
base("DateTime64Raw(6)", "new(proto.ColDateTime64).WithPrecision(6).Raw()", "proto.DateTime64")
base("Enum8", "new(proto.ColEnum8)", "proto.Enum8")
base("Enum16", "new(proto.ColEnum16)", "proto.Enum16")
base("Enum8('a'=1,'b'=2,'c'=-3)", "reg.Enum(\"Enum8('a' = 1, 'b' = 2, 'c' = -3)\")", "string")
base("Enum16('x'=1000,'y'=-2)", "reg.Enum(\"Enum16('x' = 1000, 'y' = -2)\")", "string")
for n in ["Decimal32", "Decimal64", "Decimal128", "Decimal256"]:
    base(n, f"new(proto.Col{n})", f"proto.{n}")
base("IntervalSecond", "&proto.ColInterval{Scale: proto.IntervalSecond}", "proto.Interval", nowrap=True)  # not a ColumnOf (no AppendArr)
base("IntervalYear", "&proto.ColInterval{Scale: proto.IntervalYear}", "proto.Interval", nowrap=True)
base("Nothing", "new(proto.ColNothing)", "proto.Nothing")
base("Point", "new(proto.ColPoint)", "proto.Point", scalar=False)

def wrap(e):
    out = []
    if e.get("nowrap"):
        return out
    d = e["depth"] + 1
    # Array over anything
    out.append(dict(name=f"Array({e['name']})", ctor=f"proto.NewArray[{e['go']}]({e['ctor']})", go=f"[]{e['go']}", cmp=False, scalar=False, depth=d, kind="array"))
    if e["scalar"] and e.get("kind") is None:
        out.append(dict(name=f"Nullable({e['name']})", ctor=f"proto.NewColNullable[{e['go']}]({e['ctor']})", go=f"proto.Nullable[{e['go']}]", cmp=e["cmp"], scalar=False, depth=d, kind="nullable", nullable_of_scalar=True))
    if e["cmp"] and (e.get("kind") is None and e["scalar"] or e.get("nullable_of_scalar")) and e["name"] != "Nothing" and not e["name"].startswith("Nullable(Nothing"):
        out.append(dict(name=f"LowCardinality({e['name']})", ctor=f"proto.NewLowCardinality[{e['go']}]({e['ctor']})", go=e["go"], cmp=e["cmp"], scalar=False, depth=d, kind="lc"))
    # maps: String key over anything; comparable scalar key with String value
    if e.get("kind") != "map_k":
        out.append(dict(name=f"Map(String, {e['name']})", ctor=f"proto.NewMap[string, {e['go']}](new(proto.ColStr), {e['ctor']})", go=f"map[string]{e['go']}", cmp=False, scalar=False, depth=d, kind="map"))
    if e["cmp"] and e.get("kind") is None and e["scalar"] and e["name"] not in ("Nothing",):
        out.append(dict(name=f"Map({e['name']}, String)", ctor=f"proto.NewMap[{e['go']}, string]({e['ctor']}, new(proto.ColStr))", go=f"map[{e['go']}]string", cmp=False, scalar=False, depth=d, kind="map"))
    return out

def main():
    depth = int(sys.argv[1]) if len(sys.argv) > 1 else 2
    pkg = sys.argv[2] if len(sys.argv) > 2 else "regtab"
    only = set(sys.argv[3].split(",")) if len(sys.argv) > 3 else None
    levels = [[b for b in BASES if only is None or b["name"] in only]]
    for d in range(depth):
        nxt = []
        for e in levels[-1]:
            nxt += wrap(e)
        levels.append(nxt)
    entries = [e for lvl in levels for e in lvl]
    # tuples at top level over everything below the maximum depth, plus a named tuple
    tuples = []
    for e in entries:
        if e["depth"] < depth:
            tuples.append(dict(name=f"Tuple({e['name']}, String)", ctor=f"proto.ColTuple{{{e['ctor']}, new(proto.ColStr)}}", depth=e["depth"] + 1, tuple=True))
    tuples.append(dict(name="Tuple(a UInt8, b String)", ctor="proto.ColTuple{proto.Named[uint8](new(proto.ColUInt8), \"a\"), proto.Named[string](new(proto.ColStr), \"b\")}", depth=1, tuple=True))
    print("// Code generated by scripts/genregistry.py; DO NOT EDIT.")
    print()
    print(f"package {pkg}")
    print()
    print('import (\n\t"time"\n\n\t"github.com/ClickHouse/ch-go/proto"\n\t"github.com/google/uuid"\n\n\t"verif/checks/seq/reg"\n)\n')
    print("var _ time.Time\nvar _ uuid.UUID\n")
    print("// Generated is the list of column constructors (label, nesting depth, constructor).")
    print("var Generated = []reg.Entry{")
    for e in entries + tuples:
        print(f"\t{{Label: {json_str(e['name'])}, Depth: {e['depth']}, New: func() proto.Column {{ return {e['ctor']} }}}},")
    print("}")

def json_str(s):
    return '"' + s.replace("\\", "\\\\").replace('"', '\\"') + '"'

main()
