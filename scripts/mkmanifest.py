#!/usr/bin/env python3
"""Generates /verif/MANIFEST.json from the table below (single source of truth for the
interface). Run after adding or removing a check:  python3 scripts/mkmanifest.py"""
import json, os

CLAIMED = {
    # id: (level, design_ref, technique, level text, level note)
    "C20": ("exploration", "DESIGN.md §4 C20",
            "bounded-exhaustive enumeration of conversion inputs against an independent calendar / big-integer model",
            "Every Date and every Date32 day of the documented range in 29 fixed zones at 4 times of day, DateTime seconds (all 2^32 in the thorough tier), a DateTime64 lattice at every precision, wide-integer, IP (incl. the special-purpose IPv6 blocks, compared as exact netip.Addr values) and interval helpers (intervals also over spans longer than 292 years and across the daylight-saving changes of a real zone) are each evaluated on the real functions and compared with an independent model, and every one of those instants also enters the matching column through each of its ingestion paths (Append, AppendArr, Array, Nullable) with the scalar conversion as oracle; the finite spaces named in the evidence are enumerated completely, nothing is sampled.",
            "Trusted: Go runtime, math/big; the civil-calendar model (cross-checked against package time for every day enumerated)."),
    "C04": ("model_checking", "DESIGN.md §4 C04, §2 E1/E2",
            "stateless model checking of the real client: preemption-bounded DFS over all schedules of the sender / receiver / cancel-watch / peer goroutines and clock steps, crossed with an exhaustive fault enumeration",
            "Seven query scenarios are executed on the real, instrumented ch.Client over a simulated connection inside a synctest bubble. For every fault of the outer enumeration (exception at every peer gate, stream cut, lasting silence under a caller deadline and write failure at byte positions, every failing callback (also failing with an error that wraps a foreign server exception), exceptions with a chain of 130 causes, unknown / unexpected / undecodable packets at every gate, the double faults cancel + exception and failing write + exception, and an exception that does not arrive whole: stream cut or server silent after every byte of an injected exception chain, or an undecodable exception body, at every gate) every schedule up to the deviation bound stated in the evidence is executed and the closed-or-packet-boundary post-condition is probed with a real Ping and a real follow-up query. Quick completes bound 1 for gate faults (2 around the insert schema exchange) and bound 0 for byte faults; thorough bound 2 everywhere, 3 for the insert scenarios under a budget, bound 1 at every byte.",
            "Trusted: Go runtime + testing/synctest, the instrumentation pass (cmd/vinstr) placing scheduling points at every sync / channel / context / connection operation, x/sync errgroup (instrumented, not assumed). Nothing is claimed beyond the completed bound or for faults outside the enumeration; weak-memory effects are not modelled."),
    "C10": ("model_checking", "DESIGN.md §4 C10, §2 E1/E2",
            "stateless model checking of the real client: a canceller thread (or a context deadline fired by the clock pseudo-thread) is placed by the preemption-bounded DFS at every scheduling point of every other thread",
            "Query scenarios (select, insert, streamed insert, LZ4, telemetry, stalled writes, a server that falls silent in mid-query or inside a packet or a nested exception (also with bytewise delivery), a server that never stops sending progress, a connection whose Close reports an error, and the same queries on a client with a history: a previous query on the same client that ended with a server exception or ended well) and the handshake run on the real instrumented client inside a synctest bubble; explicit cancel() (also of a context that carries a far deadline) and context deadlines (1 s / 5 s fake) with read timeouts 3 s / 100 ms; every schedule up to the bound (quick 1, thorough 2; handshake one more in thorough) is executed and checked for: error matches the context, return within read timeout + 1 s of fake time after the context ended (clock deviations discounted), exactly one well-formed Cancel byte or none, connection and client closed (or, when the cancellation followed EndOfStream, a fully usable client), no library goroutine alive at return.",
            "Trusted: as C04. A cancellation that lands after the server's EndOfStream was consumed is treated as landing after the query (client may stay open if the C04 probe passes). Failures with a cause of their own that precede the context's end (read time-out of the hello, handshake time-out) are C13's business and are not judged here."),
    "C12": ("model_checking", "DESIGN.md §4 C12, §2 E1",
            "schedule enumeration (preemption-bounded DFS under the controlled scheduler) with the Go race detector as the per-execution oracle; the scheduler's quiescence barrier and its baton hand-off (run under runtime.RaceDisable) add no happens-before edges, so -race sees only the library's own synchronisation; every run starts with a detector self-test (a deliberate race between two scheduled goroutines must be reported)",
            "The query scenarios of C04 plus an insert during which the server reports progress while the client still streams, each with OpenTelemetry instrumentation on and off, fault-free and with a server exception, plus Close / IsClosed / ServerInfo / cancel from a foreign goroutine, plus a query with external data, plus two clients made from one Options value (settings slice with spare capacity, per-query settings) running the same query side by side under each compression method (quick: default schedule), are explored up to the bound (quick 1, thorough 2) in a -race build of the instrumented client; any report whose two accesses both lie in ch-go packages or in third-party code called by them (attributed to the nearest ch-go caller) is a violation, attributed to the schedule that produced it.",
            "Trusted: the Go race detector (happens-before based: it reports races that the executed schedule exposes, schedules beyond the bound and code the scenarios never run are not covered); simnet's real mutex stands for the kernel's socket synchronisation; no-op OTel providers. Pool scenarios are covered with C11's harness."),
    "C02": ("exploration", "DESIGN.md §4 C02",
            "bounded-exhaustive enumeration of query shapes x compression x revision; each case executes the real Connect + Do under the controlled scheduler (default schedule) and the recorded client bytes are compared with the independent reference encoding",
            "All queries with at most 2 (thorough 4) fields deviating from a base query over per-field alphabets (input columns of 32 types, sent at once, streamed in two rounds or empty, strings of 127 / 128 bytes, and two pseudo-random blocks of 190-320 KB; a client history before the query: a Ping or a Do refused for its cancelled context, or an answered Ping) x 5 compression settings at the newest revision, and all queries with at most 1 deviation x every revision of the threshold-neighbour set from 54420 x {Disabled, LZ4}: the Query packet must equal the reference encoding byte for byte, every block must be exactly one Data packet (one checksummed frame iff compression is on) that the reference decoder reads back to the column contents, and nothing else may be written.",
            "Trusted: refwire/refcol (written from the protocol description, independent of proto/compress), city/lz4/zstd libraries for frames. Client-info fields the caller does not control (client name, version) are taken from the hello the same client sent; the patch number is not compared."),
    "C03": ("exploration", "DESIGN.md §4 C03",
            "bounded-exhaustive enumeration of server packet scripts; each case executes the real client against the scripted reference peer and is compared with a reference interpreter of the specified receive loop",
            "All scripts of length <= 3 (thorough 4) over a 20-symbol server-packet alphabet (incl. an exception with a chain of 40 causes, zero-valued Progress / Profile packets and a zero-row data block) x {plain, LZ4} x {typed, Auto, no binding}; all scripts of length <= 2 (3) x 16 revisions around every packet-affecting threshold x 9 callback sets; all scripts of length <= 2 x each callback failing. Callback trace (kind, payload, bound column values at callback time), return value and exception chain (errors.As / errors.Is / IsErr for every nested code) must equal the interpreter's.",
            "Trusted: refwire/refcol as generators of well-formed server streams. The behaviour without OnResult (fails when a block follows one with rows) is taken from the documentation of Query.OnResult."),
    "C08": ("exploration", "DESIGN.md §4 C08",
            "bounded-exhaustive enumeration of transport segmentations of enumerated server streams on the simulated connection (reads stop at chosen cut offsets; idle gaps drive the fake clock past the read deadline)",
            "Every stream of the C03 alphabet up to length 2 (thorough 3) at two revisions, plain and LZ4, is delivered one byte per read, split in two at every offset, with a gap longer than the read timeout before every packet, in all 2^(n-1) ways when it is at most 16 bytes long, and (thorough) in three pieces at every pair of offsets when at most 96 bytes long; also with the last bytes delivered together with EOF, with idle time inside a packet, with the gaps repeated under a far context deadline, and on a client with a past (idle longer than the handshake time-out; an earlier query whose context deadline has passed); outcome must equal the reference interpreter's (= unsegmented) outcome, and a Ping issued on the same client afterwards must end as it does after the same stream delivered in one piece (what Do left unread is the same bytes wherever they sit).",
            "Trusted: as C03. Bytes consumed from the transport are not compared (the client's buffered reader legitimately reads ahead). proto.Reader-level segmentation of whole blocks is part of C07's corpus run."),
    "C09": ("model_checking", "DESIGN.md §4 C09",
            "explicit enumeration of all OnInput callback histories up to a depth against a list-of-values reference model; every history is executed on the real client and the blocks on the wire are decoded by the reference model",
            "All histories of <= 3 (thorough 4) rounds over 12 callback behaviours (append, Reset+append, in-place overwrite, nil unchanged, io.EOF with / without rows, wrapped io.EOF, error, new column objects put into the input slots with rows / with a row + io.EOF / empty + io.EOF) x initial rows {0, 2} (and a 30000-row first block for histories of <= 2 rounds) x 6 column kinds (incl. zero-copy UInt64 / FixedString, LowCardinality, Array, inferred Enum) alone or with a second column x {plain, LZ4}; thorough additionally explores all schedules with <= 1 preemption while the server sends Progress. The server must receive exactly the model's snapshots, in order, then one empty block; callback errors must stop sending and surface from Do.",
            "Trusted: refcol decoding of the client's blocks. States = histories (each history is a distinct model state sequence)."),
    "C13": ("fault_enumeration", "DESIGN.md §4 C13",
            "exhaustive enumeration of (client revision, server revision) pairs over the threshold-neighbour set and of handshake fault responses (every truncation point of the hello, exception, wrong packet, garbage, cut, silence, answers stalled in the middle with and without a read time-out, late hello), each executed on the real Connect / Dial over the simulated connection with the fake clock",
            "~2.6k revision pairs with a well-formed hello written by the reference peer with the fields of min(client, server): ServerInfo, addendum presence, and a follow-up query parsed / answered at min(client, server); fault responses on a diagonal of pairs through Connect and Dial: error (carrying the exception), no client, dialled connection closed; hello delayed beyond the read timeout but within the handshake timeout (also arriving in the last window and at the last moment of it) must be accepted.",
            "Trusted: refwire hello model (fields gated on min of both revisions, as real servers do)."),
    "C01": ("exploration", "DESIGN.md §4 C01, §2 E3/E4/E5",
            "bounded-exhaustive enumeration of (column composition, value sequence, revision, buffer state) with three independent decoders (typed, inferred, reference model) as oracle, executed in the default and the purego build with transcript comparison",
            "Every composition of the generated registry (45 base columns under Array / Nullable / LowCardinality / Map / Tuple to depth 2: ~1000 typed constructors, plus six tuples whose preparable element comes second) x all value sequences of length <= 2 (thorough 4; 5 for the base columns) over per-type boundary alphabets x 3 revisions x 3 buffer states, plus dictionary sizes around 255 / 65535, strings around the varint boundaries and around the 1 MiB allocation step (four carriers, fresh and reused targets), the same contents as a reference server writes them (wider LowCardinality keys) and under the server's spellings of the type (Decimal(P, S), explicit time zones). Each case must decode to the appended values through a fresh typed column, through Results.Auto where the type is inferable and through the reference codec (exact consumption), must not depend on the buffer's prior contents, must decode twice into an explicit inferring target (proto.AutoResult) whose ColAuto re-encodes to the same bytes, must re-encode identically and must equal the WriteBlock path; both builds must agree.",
            "Trusted: refcol (reference codec written from the format description) and the reflection glue mapping Go values to canonical wire values (its date arithmetic is independent of the library's). LowCardinality(Nullable(T)) is compared only against the library's own decoders (its library representation is not the server's). Depth-3 compositions are not generated."),
    "C05": ("fault_enumeration", "DESIGN.md §4 C05",
            "exhaustive enumeration of payload lengths x kinds x methods, frame sequences x read sizes, every single-byte alteration of representative frames, out-of-range size fields, and an explicit-state search over append-frame / corrupt-frame / read histories on one reader",
            "Round trip of every payload length 0..512 (thorough 4096) in 4 content kinds with None, LZ4, ZSTD and LZ4HC at every level, cross-read by an independent frame parser in both directions; all frame sequences of length <= 3 x 67 read sizes; every byte of 16 frames altered 10 ways (thorough 255) must give an error (CorruptedDataErr with both hashes when the length fields are intact) and the following reads must only return bytes of verified frames; size fields beyond the limit rejected with < 1 MiB allocated; all histories of <= 4 (5) steps, each drained, with the rule that nothing behind an altered frame is handed out before an error was reported; strings around 1 MiB read through proto.Reader over compressed frames. Workers run under a 3 GiB address-space limit: an allocation driven by an unverified size field aborts inside library code and is attributed to the frame.",
            "Trusted: go-faster/city, pierrec/lz4, klauspost/zstd (shared by library and reference frame codec)."),
    "C06": ("fault_enumeration", "DESIGN.md §4 C06",
            "exhaustive single-point mutation of valid encodings (every byte x 10 values, every offset x 25 boundary / huge values incl. the neighbourhoods of the signed limits, as 8-byte field and as varint, every splice offset) decoded in memory-limited subprocesses with crash attribution and a non-termination watchdog",
            "Corpus: one block per registry composition (LowCardinality compositions also as a server may write them, with 16- and 64-bit keys; further block shapes: several columns, zero rows, header type strings as a server spells them and with hostile or huge parameters) and the protocol messages. Each mutant is decoded through the typed target and through Auto; the worker runs with a 3 GiB address-space limit and the block row cap lowered to 65536 by an overlay (so that by-design allocations stay small and only length-field-driven ones can exhaust memory). Oracle: returns within 30 s, no panic, process alive, and on success Rows() equals the block's row count and Row(i) works for every i. A dying worker is attributed to the input it was decoding, provided a fresh process given that input alone dies as well, and restarted after it.",
            "Trusted: the overlay that rewrites only the constant maxRowsInBLock. Quick covers every composition of depth <= 1 and every 11th of depth 2; thorough all."),
    "C07": ("fault_enumeration", "DESIGN.md §4 C07",
            "exhaustive enumeration of every proper prefix of every corpus encoding (plain, and inside None / LZ4 / ZSTD frames as one and two frames), decoded through typed and inferred targets",
            "Corpus = C01 blocks (all compositions, each also as its zero-row header block and, for LowCardinality, as a server writes it with 16 / 32 / 64-bit keys; incl. enums with a member numbered 0; many-row blocks of 4095 / 4096 / 8192 rows of every base column and every composition over Nothing, cut around the buffer-size multiples) and C17 messages at three revisions; ~2.2 million (encoding, cut, decoder) cases in the quick tier; a prefix the reference model parses as a complete message is excluded by construction. Values longer than the 1 MiB allocation step (seven block positions, three messages) are cut at a stated subset of positions (both ends, around every 64 KiB step, a 4099-byte stride). Oracle: an error, never nil.",
            "Trusted: refcol / refwire for the exclusion of prefixes that are complete messages."),
    "C11": ("model_checking", "DESIGN.md §4 C11, §2 E1",
            "stateless model checking of the real chpool + puddle + ch.Dial under the controlled scheduler: preemption-bounded DFS over all interleavings of the pool-level steps of 2-3 holder threads, an optional closer thread and the health-check goroutine driven by the fake clock",
            "Holder programs (ok / exception / transport error / cancelled / repeated Release / Pool.Do / Pool.Ping / Pool.Ping and Pool.Do on a transport that broke while the connection was idle / two queries; connections whose Close reports an error) in pairs and triples with MaxConns 1 and 2, with and without a concurrent Pool.Close, and health-check scenarios with short idle time and lifetime. Invariants on every execution: one holder per connection (reconstructed from the query ids each simulated connection saw), broken connections never reissued nor written to, open connections <= MaxConns at every dial, repeated Release harmless, every dialled connection closed after Close, idle connections destroyed by the health check. A sweep over 1..130 acquire / release cycles of one connection with a stale repeated Release after each (default schedule) covers every internal handle-slab size. Quick: bound 1 on the scenario list; thorough: bound 2 on ~90.",
            "Trusted: puddle v2.2.2 and x/sync semaphore are instrumented at function granularity (their internal mutex operations are scheduling points, their internal data races are not C12's subject); what a holder does on its own connection is a quiet region whose privacy the connection log would contradict."),
    "C14": ("model_checking", "DESIGN.md §4 C14",
            "explicit-state enumeration of all operation sequences of the vectored writer up to a depth against a pending-bytes reference model, with full private-state fingerprints",
            "All 13^6 (thorough 13^7) sequences over {ChainBuffer 0/1/3/70 bytes or exactly the free capacity, ChainWrite 0/1/5 bytes, Flush to an accepting / failing-after-0,1,4 / short-writing writer} x initial capacity {0, 64, 1024, 4096}, every byte position-unique: each Flush must deliver exactly the pending bytes (a prefix on failure) and nothing twice. Path equivalence WriteBlock = EncodeBlock is checked for every C01 case and on a corpus of stateful and long-string columns, WriteColumn = EncodeColumn for every base column at nine row counts around 256 / 1024 / 4096 / 8192.",
            "Trusted: none beyond the Go runtime."),
    "C15": ("exploration", "DESIGN.md §4 C15, §2 E5",
            "differential execution of one exhaustive enumeration in two builds (default and -tags purego) with line-by-line transcript comparison",
            "35 two-variant codecs x {all 256 / 65536 values for 1- and 2-byte elements, boundary patterns otherwise} x {fresh, reset-after-use} target x decode (whole input, every truncation of short inputs, the truncations of long inputs at both ends and at the 4096 / 65536 / 1 MiB steps) x 65535 / 65536 / 65537 rows and > 1 MiB of data per codec x the column read twice from one reader (plain and inside LZ4 / None / split ZSTD frames) x encode into buffers pre-filled with 0..9 bytes x WriteColumn+Flush (after buffered bytes; twice on a writer created over a non-empty buffer); each build also checks encode(decode(x)) = x itself.",
            "Trusted: the driver's transcript comparison. Bool is fed only bytes both builds accept (0 / 1)."),
    "C16": ("model_checking", "DESIGN.md §4 C16",
            "explicit-state breadth-first search over operation histories on the real column objects, deduplicated by a fingerprint of every (also unexported) field, against a list-of-values reference model",
            "21 compositions (thorough: all of depth <= 1) x histories to depth 5 (6) over {Append x3, Reset, EncodeBlock, WriteBlock+Flush, DecodeBlock of 0/2/3 rows with another dictionary, DecodeBlock of a sibling precision compared with a fresh column, truncated DecodeBlock + Reset, Prepare, Infer, re-Infer of another enum definition}; plus histories with values beyond the 1 MiB allocation step: after every history Rows/Row equal the model, a fresh encode decoded by the reference codec equals the model, and encoding twice is stable.",
            "Trusted: refcol; the successor of a state is built by replaying its path on a fresh object."),
    "C17": ("exploration", "DESIGN.md §4 C17",
            "bounded-exhaustive enumeration of message field vectors x revisions, byte-for-byte comparison with the independent reference encoder and decode-back comparison",
            "9 message kinds with <= 2 deviating fields over per-field alphabets (the one-byte trace flags over all 256 values; strings of 1 MiB / 1 MiB + 1 / 2 MiB + 5 bytes in every string field, one at a time) x the threshold-neighbour revision set (thorough: every revision 50000..54500): library bytes = reference bytes, decode gives the message as far as the revision carries it, no unread bytes.",
            "Trusted: refwire (thresholds from ProtocolDefines.h)."),
    "C18": ("exploration", "DESIGN.md §4 C18",
            "bounded-exhaustive enumeration of (block schema, target list, row count) and of block pairs, with a reference compatibility predicate as oracle",
            "Schemas of 0..2 (3) columns over 29 kinds (incl. containers of inferable elements next to containers whose type strings those elements' own Infer tolerates) x 2 row counts x ~60 target variants (permutations, renames, blank names, missing / extra, every kind swap, Auto, none), block pairs against the same typed or inferred targets, and block triples (a changed block offered twice; the first schema again) against explicit ColAuto targets: accept / reject must match the predicate, accepted targets — read back as values of the block's type — hold exactly their column and report the block's precision / enum definition as adopted, rejected decodes leave no foreign data.",
            "Trusted: the predicate (same base; enum <-> integer; enums and timestamps adopt the server's parameters; FixedString width must match; wrappers element-wise; a name-based enum target needs an enum block; Auto applies where ColAuto.Infer accepts)."),
    "C19": ("exploration", "DESIGN.md §4 C19",
            "bounded-exhaustive enumeration of type strings (well-formed grammar to depth 2/3 with legal and illegal parameters; all token strings up to length 5/6 over a 25-token alphabet; every single edit of the well-formed types; all character strings up to length 5/6 over a 9-character alphabet as parameter lists of every parameterised family; depth-10000 nesting) and of all ordered pairs for the compatibility relation",
            "Infer must not panic; when it accepts (on a fresh ColAuto, and on one with a history Infer(A), [refused Infer(X)], Infer(B) over a 30-type set), the inferred type must not conflict with the request and a block written by the reference codec must decode to the written values (Nullable types also with zero bytes in the masked slots of NULL rows); Conflicts must be reflexive and symmetric on all ~10^7 ordered pairs and agree with the documented equivalences.",
            "Trusted: refcol for the soundness decode (types it does not know are checked for totality only)."),
}

ENGINE = {
    "C01": "E3+E4+E5 (checks/seq, checks/seq/reg, refcol)",
    "C05": "E4 (checks/seq) + refwire frame model",
    "C06": "E4 (checks/seq, worker built with the row-cap overlay)",
    "C07": "E4 (checks/seq)",
    "C11": "E1 (checks/sched; instrumented puddle / x-sync under gen/)",
    "C14": "E4-BFS (checks/seq)",
    "C15": "E5 (checks/seq in two builds)",
    "C16": "E4-BFS (checks/seq)",
    "C17": "E3+E4 (checks/seq, refwire)",
    "C18": "E4 (checks/seq)",
    "C19": "E4 (checks/seq)",
    "C02": "E1(default schedule)+E2+E3 (checks/sched)",
    "C03": "E1(default schedule)+E2+E3 (checks/sched)",
    "C08": "E1(default schedule + clock)+E2+E3 (checks/sched)",
    "C09": "E1+E2+E3 (checks/sched)",
    "C13": "E1(default schedule + clock)+E2+E3 (checks/sched)",
    "C12": "E1 -race (checks/sched built with go1.26 -race, vrt/vsched)",
    "C10": "E1+E2+E3 (checks/sched, vrt/vsched, simnet, refwire)",
    "C04": "E1+E2+E3 (checks/sched, vrt/vsched, simnet, refwire)",
    "C20": "E4-ENUM (cmd/seqw, checks/seq)",
}

ALL = ["C%02d" % i for i in range(1, 21)]

def main():
    here = os.path.dirname(os.path.dirname(os.path.abspath(__file__)))
    checks, na = [], []
    for pid in ALL:
        if pid in CLAIMED:
            level, ref, tech, text, note = CLAIMED[pid]
            checks.append({
                "property_id": pid,
                "quick_cmd": f"bin/vcheck run {pid} --tier quick",
                "thorough_cmd": f"bin/vcheck run {pid} --tier thorough",
                "evidence_file": f"/verif/evidence/{pid}.json",
                "replay_cmd_template": "bin/vcheck replay {path}",
                "engine": ENGINE.get(pid, ""),
                "level_claimed": {"category": level, "text": text, "design_ref": ref},
                "level_note": note,
                "technique": tech,
            })
        else:
            na.append({"property_id": pid, "reason": "model checking applies (see DESIGN.md §4) but the check is not built yet in this tree; not claimed until it runs clean"})
    m = {
        "version": 1,
        "setup_cmd": "bash scripts/setup.sh",
        "hooks": {
            "guard": "verif",
            "enable": "no hook is committed to /repo: scheduling points, the lowered block row cap and all instrumentation are generated from the working tree into /verif/gen by cmd/vinstr on every run and applied with `go build -overlay` (and `replace` for the instrumented copies of puddle and x/sync); harness files importing testing/synctest carry the build tag go1.25",
            "baseline_off_cmd": "bash /verif/scripts/baseline.sh",
            "source_commits": [],
            "add_only": True,
        },
        "engines": [
            {"name": "E1 controlled scheduler + DFS explorer", "path": "vrt/vsched, vrt/vsync, vrt/vatomic, cmd/vinstr, checks/sched", "serves_properties": ["C02", "C03", "C04", "C08", "C09", "C10", "C11", "C12", "C13"], "kind_free_text": "stateless model checking of the real goroutines (preemption-bounded DFS inside a testing/synctest bubble, fake clock, simulated net.Conn)"},
            {"name": "E4 bounded-exhaustive enumerators and explicit-state BFS", "path": "checks/seq", "serves_properties": ["C01", "C05", "C06", "C07", "C14", "C15", "C16", "C17", "C18", "C19", "C20"], "kind_free_text": "exhaustive enumeration of finite input / history / fault spaces on the real code with reference-model oracles"},
        ],
        "checks": checks,
        "not_applicable": na,
        "notes": "Driver: bin/vcheck (built by setup). Every check rebuilds its worker binaries from /repo's working tree. known_findings.json lists recorded genuine defects (open) and repaired ones (fixed).",
    }
    with open(os.path.join(here, "MANIFEST.json"), "w") as f:
        json.dump(m, f, indent=1)
        f.write("\n")

main()
