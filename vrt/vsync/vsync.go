// Package vsync mirrors the parts of package sync used by the instrumented code.
package vsync

import (
	"sync"
	"unsafe"

	"verif/vrt/vsched"
)

type (
	Pool   = sync.Pool
	Map    = sync.Map
	Locker = sync.Locker
)

// Mutex is a cooperative mutex: blocking happens on a bubble channel (durable),
// the real mutex is kept so that the race detector sees the lock edges.
type Mutex struct {
	sem chan struct{}
	mu  sync.Mutex
}

//go:norace
func (m *Mutex) init() {
	if m.sem == nil {
		m.sem = make(chan struct{}, 1)
	}
}

func (m *Mutex) Lock() {
	t := vsched.PointObj("Mutex.Lock", uintptr(unsafe.Pointer(m)))
	if t == nil {
		m.mu.Lock()
		return
	}
	m.init()
	select {
	case m.sem <- struct{}{}:
	default:
		m.sem <- struct{}{}
		vsched.After(t)
	}
	m.mu.Lock()
}

func (m *Mutex) TryLock() bool {
	t := vsched.PointObj("Mutex.TryLock", uintptr(unsafe.Pointer(m)))
	if t == nil {
		return m.mu.TryLock()
	}
	m.init()
	select {
	case m.sem <- struct{}{}:
		m.mu.Lock()
		return true
	default:
		return false
	}
}

func (m *Mutex) Unlock() {
	t := vsched.PointObj("Mutex.Unlock", uintptr(unsafe.Pointer(m)))
	m.mu.Unlock()
	if t == nil {
		return
	}
	<-m.sem
}

// RWMutex degrades to Mutex (no reader concurrency is needed by the targets).
type RWMutex struct{ Mutex }

func (m *RWMutex) RLock()   { m.Lock() }
func (m *RWMutex) RUnlock() { m.Unlock() }

type WaitGroup struct{ wg sync.WaitGroup }

func (w *WaitGroup) Add(n int) {
	vsched.PointObj("WaitGroup.Add", uintptr(unsafe.Pointer(w)))
	w.wg.Add(n)
}
func (w *WaitGroup) Done() {
	vsched.PointObj("WaitGroup.Done", uintptr(unsafe.Pointer(w)))
	w.wg.Done()
}
func (w *WaitGroup) Wait() {
	t := vsched.PointObj("WaitGroup.Wait", uintptr(unsafe.Pointer(w)))
	w.wg.Wait()
	vsched.After(t)
}

// Once cannot wrap sync.Once: a second caller would block non-durably while the
// first sits at a gate inside f.
type Once struct {
	m    Mutex
	done bool
}

func (o *Once) Do(f func()) {
	o.m.Lock()
	defer o.m.Unlock()
	if !o.done {
		defer func() { o.done = true }()
		f()
	}
}
