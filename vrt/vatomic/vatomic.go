// Package vatomic mirrors the typed atomics used by the instrumented code.
package vatomic

import (
	"sync/atomic"
	"unsafe"

	"verif/vrt/vsched"
)

type Bool struct{ v atomic.Bool }

func (b *Bool) Load() bool {
	vsched.PointObj("atomic.Bool.Load", uintptr(unsafe.Pointer(b)))
	return b.v.Load()
}
func (b *Bool) Store(x bool) {
	vsched.PointObj("atomic.Bool.Store", uintptr(unsafe.Pointer(b)))
	b.v.Store(x)
}
func (b *Bool) Swap(x bool) bool {
	vsched.PointObj("atomic.Bool.Swap", uintptr(unsafe.Pointer(b)))
	return b.v.Swap(x)
}
func (b *Bool) CompareAndSwap(o, n bool) bool {
	vsched.PointObj("atomic.Bool.CAS", uintptr(unsafe.Pointer(b)))
	return b.v.CompareAndSwap(o, n)
}

type Int64 struct{ v atomic.Int64 }

func (b *Int64) Load() int64 {
	vsched.PointObj("atomic.Int64.Load", uintptr(unsafe.Pointer(b)))
	return b.v.Load()
}
func (b *Int64) Store(x int64) {
	vsched.PointObj("atomic.Int64.Store", uintptr(unsafe.Pointer(b)))
	b.v.Store(x)
}
func (b *Int64) Add(x int64) int64 {
	vsched.PointObj("atomic.Int64.Add", uintptr(unsafe.Pointer(b)))
	return b.v.Add(x)
}

type Uint64 struct{ v atomic.Uint64 }

func (b *Uint64) Load() uint64 {
	vsched.PointObj("atomic.Uint64.Load", uintptr(unsafe.Pointer(b)))
	return b.v.Load()
}
func (b *Uint64) Store(x uint64) {
	vsched.PointObj("atomic.Uint64.Store", uintptr(unsafe.Pointer(b)))
	b.v.Store(x)
}
func (b *Uint64) Add(x uint64) uint64 {
	vsched.PointObj("atomic.Uint64.Add", uintptr(unsafe.Pointer(b)))
	return b.v.Add(x)
}
