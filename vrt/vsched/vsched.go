// Package vsched is a controlled scheduler for real goroutines running inside a
// testing/synctest bubble. Spike version.
package vsched

import (
	"fmt"
	"reflect"
	"runtime"
	"strconv"
	"strings"
	"time"
)

// Thread is a controlled goroutine.
type Thread struct {
	ID    int
	Name  string
	gate  chan struct{}
	state int32 // 0 running or runtime-blocked, 1 at gate, 2 done
	site  string
	goid  int64
	quiet int // >0: points of this thread are not branching points
	panic any
	h     uint64 // happens-before signature of this thread's history
	obj   uintptr
	read  bool
	nkids int
}

const (
	stRunning = 0
	stAtGate  = 1
	stDone    = 2
)

// PointInfo describes one scheduling decision.
type PointInfo struct {
	Enabled    []int // thread ids (-1 = clock) in canonical order
	CurEnabled bool
	Kind       byte   // 's' schedule, 'c' data choice
	N          int    // for data choices
	Key        uint64 // happens-before signature of the global state at this point
	Cur        uint64 // signature of the current thread (0 if none)
}

// Sched is the state of one execution.
type Sched struct {
	thr      []*Thread
	cur      *Thread
	Prefix   []int
	Choices  []int
	Points   []PointInfo
	trace    []traceEnt
	Steps    int
	timers   []time.Time
	Horizon  time.Duration
	start    time.Time
	Paranoid bool
	Deadlock bool
	Diverged string
	MaxSteps int
	objsig   map[uintptr]uint64
	epoch    uint64
	periodic []periodic
	// ClockFree makes clock steps free (no deviation charged) — never used by checks, kept
	// for experiments.
	TimedOut bool
	stolen   time.Duration // fake time that passed in clock steps chosen while a thread was enabled
}

// Stolen returns the fake time that elapsed in clock deviations (the clock advanced
// although some thread could run): a latency oracle must not charge it to the library.
//
//go:norace
func Stolen() time.Duration {
	if S == nil {
		return 0
	}
	return S.stolen
}

type traceEnt struct {
	tid  int // -1 clock (free), -2 clock (chosen), -3 note
	site string
}

// Trace renders the operation trace of the execution.
//
//go:norace
func (s *Sched) Trace() []string {
	out := make([]string, len(s.trace))
	for i, e := range s.trace {
		switch e.tid {
		case -1:
			out[i] = "clock->" + e.site
		case -2:
			out[i] = "clock=>" + e.site
		case -3:
			out[i] = e.site
		default:
			out[i] = "t" + strconv.Itoa(e.tid) + " " + e.site
		}
	}
	return out
}

type periodic struct {
	start  time.Time
	period time.Duration
}

//go:norace
func mix(a, b uint64) uint64 {
	a ^= b + 0x9e3779b97f4a7c15 + (a << 6) + (a >> 2)
	a *= 0xff51afd7ed558ccd
	a ^= a >> 33
	return a
}

//go:norace
func hashStr(s string) uint64 {
	h := uint64(14695981039346656037)
	for i := 0; i < len(s); i++ {
		h ^= uint64(s[i])
		h *= 1099511628211
	}
	return h
}

// fold records that thread t performed an operation at site on object obj.
//
//go:norace
func (s *Sched) fold(t *Thread, site string, obj uintptr) {
	if s.objsig == nil {
		s.objsig = map[uintptr]uint64{}
	}
	o := s.objsig[obj]
	t.h = mix(mix(mix(t.h, hashStr(site)), o), s.epoch)
	if !t.read {
		s.objsig[obj] = mix(o, t.h)
	}
}

// stateKey is the signature of the global state: every thread's history signature,
// which thread is current, and each thread's status.
//
//go:norace
func (s *Sched) stateKey() uint64 {
	var k uint64
	for _, t := range s.thr {
		k += mix(t.h, uint64(t.state)+1) // commutative: independent of registration order
	}
	return mix(k, s.epoch)
}

//go:norace
func (s *Sched) curSig() uint64 {
	if s.cur == nil || s.cur.state == stDone {
		return 0
	}
	return s.cur.h | 1
}

// S is the active scheduler (nil: all helpers degrade to plain operations).
var S *Sched

//go:norace
func goid() int64 {
	var buf [64]byte
	n := runtime.Stack(buf[:], false)
	s := strings.TrimPrefix(string(buf[:n]), "goroutine ")
	i := strings.IndexByte(s, ' ')
	id, _ := strconv.ParseInt(s[:i], 10, 64)
	return id
}

//go:norace
func (s *Sched) register(t *Thread) {
	t.ID = len(s.thr)
	s.thr = append(s.thr, t)
}

//go:norace
func park(t *Thread, site string) {
	t.site = site
	t.state = stAtGate
	// The baton must not carry happens-before: a channel operation synchronises both ways
	// (on an unbuffered channel the receiver's past happens before the sender's future),
	// which would publish this thread's history to the scheduler and through it to every
	// thread resumed later, hiding all but back-to-back races from the race detector.
	// RaceDisable makes the detector ignore the synchronisation of this one operation
	// (memory accesses are still tracked); it is a no-op in builds without -race.
	raceOff()
	<-t.gate
	raceOn()
}

// PointObj is Point with the identity of the object the operation touches.
//
//go:norace
func PointObj(site string, obj uintptr) *Thread {
	s := S
	if s == nil {
		return nil
	}
	t := s.cur
	if s.Paranoid {
		if g := goid(); t == nil || g != t.goid {
			panic(fmt.Sprintf("vsched: Point(%s) called by goroutine %d which is not the running thread %v", site, g, t))
		}
	}
	t.obj = obj
	t.read = false
	park(t, site)
	return t
}

// CtxObj is the single object standing for all contexts.
const CtxObj uintptr = 2

// PointRead announces an operation that only reads obj.
//
//go:norace
func PointRead(site string, obj uintptr) *Thread {
	s := S
	if s == nil {
		return nil
	}
	t := s.cur
	t.obj = obj
	t.read = true
	park(t, site)
	return t
}

func PointCtxRead(site string) *Thread  { return PointRead(site, CtxObj) }
func PointCtxWrite(site string) *Thread { return PointObj(site, CtxObj) }

// ChanID returns the identity of a channel value.
func ChanID(ch any) uintptr {
	v := reflect.ValueOf(ch)
	if !v.IsValid() || v.IsNil() {
		return 1
	}
	return v.Pointer()
}

// Point announces a visible operation of the running thread and yields.
//
//go:norace
func Point(site string) *Thread {
	return PointObj(site, 0)
}

// After is the gate a thread passes after having been woken by the runtime.
//
//go:norace
func After(t *Thread) {
	if t == nil {
		return
	}
	park(t, "after:"+t.site)
}

// RegisterTimer tells the clock pseudo-thread about a future instant.
//
//go:norace
func RegisterTimer(at time.Time) {
	if S == nil {
		return
	}
	S.timers = append(S.timers, at)
}

// UnregisterTimer removes one registration of the instant (a timer that was stopped, a
// deadline that was replaced, a context that was cancelled before it expired).
//
//go:norace
func UnregisterTimer(at time.Time) {
	if S == nil {
		return
	}
	for i, x := range S.timers {
		if x.Equal(at) {
			S.timers = append(S.timers[:i], S.timers[i+1:]...)
			return
		}
	}
}

// Go starts a controlled thread.
//
//go:norace
func Go(site string, f func()) {
	s := S
	if s == nil {
		go f()
		return
	}
	Point(site)
	parent := s.cur
	t := &Thread{gate: make(chan struct{}), Name: site}
	if parent != nil && parent.quiet > 0 {
		t.quiet = 1
	}
	if parent != nil {
		parent.nkids++
		t.h = mix(mix(parent.h, hashStr(site)), uint64(parent.nkids))
	}
	s.register(t)
	go func() {
		if s.Paranoid {
			t.goid = goid()
		}
		park(t, "start:"+site)
		defer func() {
			if r := recover(); r != nil {
				t.panic = r
				s.trace = append(s.trace, traceEnt{-3, fmt.Sprintf("PANIC t%d: %v", t.ID, r)})
			}
			t.state = stDone
		}()
		f()
	}()
}

// Quiet runs f with the current thread's points non-branching.
//
//go:norace
func Quiet(f func()) {
	if S == nil || S.cur == nil {
		f()
		return
	}
	t := S.cur
	t.quiet++
	defer func() { t.quiet-- }()
	f()
}

// QuietSticky makes the current thread quiet until it exits.
//
//go:norace
func QuietSticky() {
	if S != nil && S.cur != nil {
		S.cur.quiet++
	}
}

// Choose is a data-nondeterminism choice point with n alternatives.
//
//go:norace
func Choose(site string, n int) int {
	s := S
	if s == nil || n <= 1 {
		return 0
	}
	k := 0
	if len(s.Choices) < len(s.Prefix) {
		k = s.Prefix[len(s.Choices)]
	}
	if k >= n {
		s.Diverged = fmt.Sprintf("choice %d >= %d at %s", k, n, site)
		k = 0
	}
	s.Points = append(s.Points, PointInfo{Kind: 'c', N: n, Key: mix(s.stateKey(), hashStr(site))})
	s.Choices = append(s.Choices, k)
	if s.cur != nil {
		s.cur.h = mix(s.cur.h, uint64(k)+77)
	}
	s.trace = append(s.trace, traceEnt{-3, fmt.Sprintf("choose %s=%d/%d", site, k, n)})
	return k
}

func Recv[T any](site string, ch <-chan T) T {
	v, _ := Recv2(site, ch)
	return v
}

func Recv2[T any](site string, ch <-chan T) (T, bool) {
	t := PointObj(site, ChanID(ch))
	if t == nil {
		v, ok := <-ch
		return v, ok
	}
	select {
	case v, ok := <-ch:
		return v, ok
	default:
	}
	v, ok := <-ch
	After(t)
	return v, ok
}

func Send[T any](site string, ch chan<- T, v T) {
	t := PointObj(site, ChanID(ch))
	if t == nil {
		ch <- v
		return
	}
	select {
	case ch <- v:
		return
	default:
	}
	ch <- v
	After(t)
}

func Close[T any](site string, ch chan<- T) {
	PointObj(site, ChanID(ch))
	close(ch)
}

// Case is one communication clause of a select.
type Case struct {
	ch   reflect.Value
	send reflect.Value
	dir  reflect.SelectDir
}

func R(ch any) Case { return Case{ch: reflect.ValueOf(ch), dir: reflect.SelectRecv} }
func Sd[T any](ch chan<- T, v T) Case {
	return Case{ch: reflect.ValueOf(ch), dir: reflect.SelectSend, send: reflect.ValueOf(&v).Elem()}
}

// Val extracts the received value with the channel's element type.
func Val[T any](_ <-chan T, rv reflect.Value) T {
	var out T
	if rv.IsValid() {
		reflect.ValueOf(&out).Elem().Set(rv)
	}
	return out
}

// Select performs a select statement. Returns the chosen case (-1 = default).
func Select(site string, hasDefault bool, cases ...Case) (int, reflect.Value, bool) {
	// A select whose only other cases are context Done channels is an operation on its
	// data channel plus a read of the context object; fold as write on the first data
	// channel (or a context read if there is none).
	var t *Thread
	{
		var data uintptr
		for _, c := range cases {
			if !c.ch.IsValid() || c.ch.IsNil() {
				continue
			}
			isDone := c.dir == reflect.SelectRecv && c.ch.Type().ChanDir() == reflect.RecvDir && c.ch.Type().Elem().Size() == 0
			if !isDone {
				if data != 0 {
					data = 0 // more than one data channel: global
					break
				}
				data = c.ch.Pointer()
			}
		}
		allDone := true
		for _, c := range cases {
			if c.ch.IsValid() && !c.ch.IsNil() && !(c.dir == reflect.SelectRecv && c.ch.Type().ChanDir() == reflect.RecvDir && c.ch.Type().Elem().Size() == 0) {
				allDone = false
			}
		}
		switch {
		case allDone:
			t = PointCtxRead(site)
		default:
			t = PointObj(site, data)
		}
	}
	if t == nil {
		sc := make([]reflect.SelectCase, 0, len(cases)+1)
		for _, c := range cases {
			sc = append(sc, reflect.SelectCase{Dir: c.dir, Chan: c.ch, Send: c.send})
		}
		if hasDefault {
			sc = append(sc, reflect.SelectCase{Dir: reflect.SelectDefault})
		}
		i, v, ok := reflect.Select(sc)
		if hasDefault && i == len(cases) {
			return -1, reflect.Value{}, false
		}
		return i, v, ok
	}
	// Non-consuming readiness scan to find out whether the choice is forced.
	var ready []int
	for i, c := range cases {
		if !c.ch.IsValid() || c.ch.IsNil() {
			continue
		}
		if c.dir == reflect.SelectRecv {
			if c.ch.Len() > 0 || isClosed(c.ch) {
				ready = append(ready, i)
			}
		} else if c.ch.Len() < c.ch.Cap() {
			ready = append(ready, i)
		}
	}
	order := make([]int, 0, len(cases))
	if len(ready) >= 2 {
		k := Choose(site+"#ready", len(ready))
		order = append(order, ready[k])
	}
	for i := range cases {
		if len(order) > 0 && order[0] == i {
			continue
		}
		order = append(order, i)
	}
	for _, i := range order {
		c := cases[i]
		if !c.ch.IsValid() || c.ch.IsNil() {
			continue
		}
		if c.dir == reflect.SelectRecv {
			if v, ok := c.ch.TryRecv(); v.IsValid() {
				if !ok {
					markClosed(c.ch)
				}
				return i, v, ok
			}
		} else if c.ch.TrySend(c.send) {
			return i, reflect.Value{}, false
		}
	}
	if hasDefault {
		return -1, reflect.Value{}, false
	}
	sc := make([]reflect.SelectCase, len(cases))
	for i, c := range cases {
		sc[i] = reflect.SelectCase{Dir: c.dir, Chan: c.ch, Send: c.send}
	}
	i, v, ok := reflect.Select(sc)
	After(t)
	return i, v, ok
}

// closed-channel knowledge: a channel observed closed stays closed.
var closedSet = map[uintptr]bool{}

//go:norace
func isClosed(ch reflect.Value) bool { return closedSet[ch.Pointer()] }

//go:norace
func markClosed(ch reflect.Value) { closedSet[ch.Pointer()] = true }

// ---- scheduler loop (runs on the bubble's root goroutine) ----

// NewThread registers the main harness thread running body.
//
//go:norace
func (s *Sched) Main(name string, body func()) {
	t := &Thread{gate: make(chan struct{}), Name: name}
	s.register(t)
	go func() {
		if s.Paranoid {
			t.goid = goid()
		}
		park(t, "start:"+name)
		defer func() {
			if r := recover(); r != nil {
				t.panic = r
				s.trace = append(s.trace, traceEnt{-3, fmt.Sprintf("PANIC t%d: %v", t.ID, r)})
			}
			t.state = stDone
		}()
		body()
	}()
}

//go:norace
func (s *Sched) nextTimer(now time.Time) (time.Time, bool) {
	var best time.Time
	ok := false
	j := 0
	for _, at := range s.timers {
		if !at.After(now) {
			continue // already fired
		}
		s.timers[j] = at
		j++
		if !ok || at.Before(best) {
			best, ok = at, true
		}
	}
	s.timers = s.timers[:j]
	for _, p := range s.periodic {
		k := now.Sub(p.start)/p.period + 1
		at := p.start.Add(k * p.period)
		if !ok || at.Before(best) {
			best, ok = at, true
		}
	}
	return best, ok
}

// Leaked lists controlled threads that had not finished when the execution ended.
//
//go:norace
func (s *Sched) Leaked() []string {
	var out []string
	for _, t := range s.thr {
		if t.state != stDone {
			out = append(out, fmt.Sprintf("t%d(%s)@%s", t.ID, t.Name, strings.TrimPrefix(t.site, "after:")))
		}
	}
	return out
}

// Now returns the fake time elapsed since the execution started.
//
//go:norace
func (s *Sched) Elapsed() time.Duration { return time.Since(s.start) }

// Live lists the names of controlled threads that have not finished.
//
//go:norace
func Live() []string {
	if S == nil {
		return nil
	}
	var out []string
	for _, t := range S.thr {
		if t.state != stDone {
			out = append(out, t.Name)
		}
	}
	return out
}

// CurID returns the id of the running thread (-1 outside the scheduler).
//
//go:norace
func CurID() int {
	if S == nil || S.cur == nil {
		return -1
	}
	return S.cur.ID
}

// Run drives the execution to completion.
//
//go:norace
func (s *Sched) Run() {
	if s.MaxSteps == 0 {
		s.MaxSteps = 100000
	}
	closedSet = map[uintptr]bool{}
	s.start = time.Now()
	idle := 0
	for {
		time.Sleep(1) // quiescence barrier on the fake clock; creates no happens-before edges
		var en []int
		all := true
		for _, x := range s.thr {
			if x.state == stAtGate {
				en = append(en, x.ID)
			}
			if x.state != stDone {
				all = false
			}
		}
		if all {
			return
		}
		now := time.Now()
		nt, hasTimer := s.nextTimer(now)
		if len(en) == 0 {
			if hasTimer && now.Sub(s.start) <= s.Horizon {
				time.Sleep(nt.Sub(now) + time.Microsecond)
				s.trace = append(s.trace, traceEnt{-1, nt.Sub(s.start).String()})
				s.epoch = mix(s.epoch, uint64(nt.Sub(s.start)))
				continue
			}
			if hasTimer {
				s.Deadlock = true
				s.TimedOut = true
				return
			}
			// unknown timers: creep forward
			idle++
			if idle > 50 || now.Sub(s.start) > s.Horizon {
				s.Deadlock = true
				return
			}
			time.Sleep(time.Second)
			continue
		}
		idle = 0
		s.Steps++
		if s.Steps > s.MaxSteps {
			s.Deadlock = true
			s.trace = append(s.trace, traceEnt{-3, "MAXSTEPS"})
			return
		}
		// Canonical order: current thread first if enabled, then ascending ids, clock last.
		curEn := false
		if s.cur != nil {
			for i, id := range en {
				if id == s.cur.ID {
					copy(en[1:i+1], en[:i])
					en[0] = id
					curEn = true
					break
				}
			}
		}
		if hasTimer {
			en = append(en, -1)
		}
		// Quiet threads have priority and never cause branching: a quiet region behaves as
		// one atomic block as long as it only needs other quiet threads to make progress.
		quiet := false
		if curEn && s.cur.quiet > 0 {
			quiet = true // keep running it (index 0)
		} else {
			for i, id := range en {
				if id >= 0 && s.thr[id].quiet > 0 {
					en[0], en[i] = en[i], en[0]
					quiet = true
					break
				}
			}
		}
		k := 0
		if !quiet && len(en) > 1 {
			if len(s.Choices) < len(s.Prefix) {
				k = s.Prefix[len(s.Choices)]
			}
			if k >= len(en) {
				s.Diverged = fmt.Sprintf("schedule choice %d >= %d at step %d", k, len(en), s.Steps)
				k = 0
			}
			s.Points = append(s.Points, PointInfo{Enabled: append([]int(nil), en...), CurEnabled: curEn, Kind: 's', Key: s.stateKey(), Cur: s.curSig()})
			s.Choices = append(s.Choices, k)
		}
		if en[k] == -1 {
			time.Sleep(nt.Sub(now) + time.Microsecond)
			s.stolen += nt.Sub(now) + time.Microsecond
			s.trace = append(s.trace, traceEnt{-2, nt.Sub(s.start).String()})
			s.epoch = mix(s.epoch, uint64(nt.Sub(s.start)))
			continue
		}
		x := s.thr[en[k]]
		s.trace = append(s.trace, traceEnt{x.ID, x.site})
		s.cur = x
		s.fold(x, x.site, x.obj)
		x.state = stRunning
		raceOff() // see park
		x.gate <- struct{}{}
		raceOn()
	}
}

// Panics returns recovered panics of controlled threads.
//
//go:norace
func (s *Sched) Panics() []string {
	var out []string
	for _, t := range s.thr {
		if t.panic != nil {
			out = append(out, fmt.Sprintf("t%d(%s): %v", t.ID, t.Name, t.panic))
		}
	}
	return out
}
