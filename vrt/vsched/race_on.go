//go:build race

package vsched

import "runtime"

// raceOff / raceOn bracket the baton hand-off: the race detector ignores synchronisation
// events in between (memory accesses are still tracked).
func raceOff() { runtime.RaceDisable() }
func raceOn()  { runtime.RaceEnable() }
