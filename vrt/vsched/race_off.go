//go:build !race

package vsched

func raceOff() {}
func raceOn()  {}
