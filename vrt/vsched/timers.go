package vsched

import (
	"context"
	"time"
)

// The instrumenter routes the library's timer constructors through these wrappers so
// that the clock pseudo-thread knows every future instant at which something can fire.

//go:norace
func registerPeriodic(start time.Time, period time.Duration) {
	if S == nil || period <= 0 {
		return
	}
	S.periodic = append(S.periodic, periodic{start, period})
}

func CtxWithTimeout(parent context.Context, d time.Duration) (context.Context, context.CancelFunc) {
	at := time.Now().Add(d)
	RegisterTimer(at)
	ctx, cancel := context.WithTimeout(parent, d)
	return ctx, func() { UnregisterTimer(at); cancel() }
}

func CtxWithDeadline(parent context.Context, at time.Time) (context.Context, context.CancelFunc) {
	RegisterTimer(at)
	ctx, cancel := context.WithDeadline(parent, at)
	return ctx, func() { UnregisterTimer(at); cancel() }
}

func TimeNewTicker(d time.Duration) *time.Ticker {
	registerPeriodic(time.Now(), d)
	return time.NewTicker(d)
}

func TimeNewTimer(d time.Duration) *time.Timer {
	RegisterTimer(time.Now().Add(d))
	return time.NewTimer(d)
}

func TimeAfter(d time.Duration) <-chan time.Time {
	RegisterTimer(time.Now().Add(d))
	return time.After(d)
}

func TimeSleep(d time.Duration) {
	t := Point("time.Sleep")
	if t == nil {
		time.Sleep(d)
		return
	}
	RegisterTimer(time.Now().Add(d))
	time.Sleep(d)
	After(t)
}
