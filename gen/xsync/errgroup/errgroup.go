// Copyright 2016 The Go Authors. All rights reserved.
// Use of this source code is governed by a BSD-style
// license that can be found in the LICENSE file.

// Package errgroup provides synchronization, error propagation, and Context
// cancelation for groups of goroutines working on subtasks of a common task.
//
// [errgroup.Group] is related to [sync.WaitGroup] but adds handling of tasks
// returning errors.
package errgroup

import (
	"context"
	"fmt"
	"verif/vrt/vsched"
	sync "verif/vrt/vsync"
)

type token struct{}

type Group struct {
	cancel func(error)

	wg sync.WaitGroup

	sem chan token

	errOnce sync.Once
	err     error
}

func (g *Group) done() {
	if g.sem != nil {
		vsched.Recv("errgroup.go:38", g.sem)
	}
	vsched.PointCtxRead("errgroup.go:40")
	g.wg.Done()
}

func WithContext(ctx context.Context) (*Group, context.Context) {
	ctx, cancel := context.WithCancelCause(ctx)
	return &Group{cancel: cancel}, ctx
}

func (g *Group) Wait() error {
	g.wg.Wait()
	if g.cancel != nil {
		vsched.PointCtxWrite("errgroup.go:58")
		g.cancel(g.err)
	}
	return g.err
}

func (g *Group) Go(f func() error) {
	if g.sem != nil {
		vsched.Send("errgroup.go:72", g.sem, token{})
	}

	g.wg.Add(1)
	vsched.Go("errgroup.go:76", func() {
		defer g.done()

		if err := f(); err != nil {
			g.errOnce.Do(func() {
				g.err = err
				if g.cancel != nil {
					vsched.PointCtxWrite("errgroup.go:83")
					g.cancel(g.err)
				}
			})
		}
	})
}

func (g *Group) TryGo(f func() error) bool {
	if g.sem != nil {
		{
			_vc3 := g.sem
			_vi4, _, _ := vsched.Select("errgroup.go:96", true, vsched.Sd(_vc3, token{}))
			switch _vi4 {
			case 0:
			default:

				return false
			}
		}

	}

	g.wg.Add(1)
	vsched.Go("errgroup.go:105", func() {
		defer g.done()

		if err := f(); err != nil {
			g.errOnce.Do(func() {
				g.err = err
				if g.cancel != nil {
					vsched.PointCtxWrite("errgroup.go:112")
					g.cancel(g.err)
				}
			})
		}
	})
	return true
}

func (g *Group) SetLimit(n int) {
	if n < 0 {
		g.sem = nil
		return
	}
	if len(g.sem) != 0 {
		panic(fmt.Errorf("errgroup: modify limit while %v goroutines in the group are still active", len(g.sem)))
	}
	g.sem = make(chan token, n)
}
