// Copyright 2017 The Go Authors. All rights reserved.
// Use of this source code is governed by a BSD-style
// license that can be found in the LICENSE file.

// Package semaphore provides a weighted semaphore implementation.
package semaphore

import (
	"container/list"
	"context"
	"verif/vrt/vsched"
	sync "verif/vrt/vsync"
)

type waiter struct {
	n     int64
	ready chan<- struct{}
}

func NewWeighted(n int64) *Weighted {
	vsched.Point("semaphore.go:21")
	w := &Weighted{size: n}
	return w
}

type Weighted struct {
	size    int64
	cur     int64
	mu      sync.Mutex
	waiters list.List
}

func (s *Weighted) Acquire(ctx context.Context, n int64) error {
	vsched.Point("semaphore.go:38")
	vsched.PointCtxRead("semaphore.go:39")
	done := ctx.Done()

	s.mu.Lock()
	{
		_vc3 := done
		_vi4, _, _ := vsched.Select("semaphore.go:42", true, vsched.R(_vc3))
		switch _vi4 {
		case 0:

			s.mu.Unlock()
			vsched.PointCtxRead("semaphore.go:49")
			return ctx.Err()
		default:
		}
	}

	if s.size-s.cur >= n && s.waiters.Len() == 0 {

		s.cur += n
		s.mu.Unlock()
		return nil
	}

	if n > s.size {

		s.mu.Unlock()
		vsched.Recv("semaphore.go:65", done)
		vsched.PointCtxRead("semaphore.go:66")
		return ctx.Err()
	}

	ready := make(chan struct{})
	w := waiter{n: n, ready: ready}
	elem := s.waiters.PushBack(w)
	s.mu.Unlock()
	{
		_vc15 := done
		_vc16 := ready
		_vi17, _, _ := vsched.Select("semaphore.go:74", false, vsched.R(_vc15), vsched.R(_vc16))
		switch _vi17 {
		case 0:
			s.mu.Lock()
			{
				_vc7 := ready
				_vi8, _, _ := vsched.Select("semaphore.go:77", true, vsched.R(_vc7))
				switch _vi8 {
				case 0:

					s.cur -= n
					s.notifyWaiters()
				default:

					isFront := s.waiters.Front() == elem
					s.waiters.Remove(elem)

					if isFront && s.size > s.cur {
						s.notifyWaiters()
					}
				}
			}

			s.mu.Unlock()
			vsched.PointCtxRead("semaphore.go:92")
			return ctx.Err()
		case 1:
			{
				_vc11 := done
				_vi12, _, _ := vsched.Select("semaphore.go:99", true, vsched.R(_vc11))
				switch _vi12 {
				case 0:
					s.Release(n)
					vsched.PointCtxRead("semaphore.go:102")
					return ctx.Err()
				default:
				}
			}

			return nil
		default:
			panic("vsched: bad select index")
		}
	}

}

func (s *Weighted) TryAcquire(n int64) bool {
	vsched.Point("semaphore.go:111")
	s.mu.Lock()
	success := s.size-s.cur >= n && s.waiters.Len() == 0
	if success {
		s.cur += n
	}
	s.mu.Unlock()
	return success
}

func (s *Weighted) Release(n int64) {
	vsched.Point("semaphore.go:122")
	s.mu.Lock()
	s.cur -= n
	if s.cur < 0 {
		s.mu.Unlock()
		panic("semaphore: released more than held")
	}
	s.notifyWaiters()
	s.mu.Unlock()
}

func (s *Weighted) notifyWaiters() {
	for {
		next := s.waiters.Front()
		if next == nil {
			break
		}

		w := next.Value.(waiter)
		if s.size-s.cur < w.n {

			break
		}

		s.cur += w.n
		s.waiters.Remove(next)
		vsched.Close("semaphore.go:158", w.ready)
	}
}
