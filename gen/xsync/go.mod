module golang.org/x/sync

go 1.23.0
