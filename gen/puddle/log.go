package puddle

import "unsafe"

type ints interface {
	int | int8 | int16 | int32 | int64 | uint | uint8 | uint16 | uint32 | uint64
}

// log2Int returns log2 of an integer. This function panics if val < 0. For val
// == 0, returns 0.
func log2Int[T ints](val T) uint8 {
	if val <= 0 {
		panic("log2 of non-positive number does not exist")
	}

	return log2IntRange(val, 0, uint8(8*unsafe.Sizeof(val)))
}

func log2IntRange[T ints](val T, begin, end uint8) uint8 {
	length := end - begin
	if length == 1 {
		return begin
	}

	delim := begin + length/2
	mask := T(1) << delim
	if mask > val {
		return log2IntRange(val, begin, delim)
	} else {
		return log2IntRange(val, delim, end)
	}
}
