package puddle

import (
	"context"
	"errors"
	"time"
	atomic "verif/vrt/vatomic"
	"verif/vrt/vsched"
	sync "verif/vrt/vsync"

	"github.com/jackc/puddle/v2/internal/genstack"
	"golang.org/x/sync/semaphore"
)

const (
	resourceStatusConstructing = 0
	resourceStatusIdle         = iota
	resourceStatusAcquired     = iota
	resourceStatusHijacked     = iota
)

// ErrClosedPool occurs on an attempt to acquire a connection from a closed pool
// or a pool that is closed while the acquire is waiting.
var ErrClosedPool = errors.New("closed pool")

// ErrNotAvailable occurs on an attempt to acquire a resource from a pool
// that is at maximum capacity and has no available resources.
var ErrNotAvailable = errors.New("resource not available")

// Constructor is a function called by the pool to construct a resource.
type Constructor[T any] func(ctx context.Context) (res T, err error)

// Destructor is a function called by the pool to destroy a resource.
type Destructor[T any] func(res T)

// Resource is the resource handle returned by acquiring from the pool.
type Resource[T any] struct {
	value          T
	pool           *Pool[T]
	creationTime   time.Time
	lastUsedNano   int64
	poolResetCount int
	status         byte
}

// Value returns the resource value.
func (res *Resource[T]) Value() T {
	vsched.Point("pool.go:46")
	if !(res.status == resourceStatusAcquired || res.status == resourceStatusHijacked) {
		panic("tried to access resource that is not acquired or hijacked")
	}
	return res.value
}

// Release returns the resource to the pool. res must not be subsequently used.
func (res *Resource[T]) Release() {
	vsched.Point("pool.go:54")
	if res.status != resourceStatusAcquired {
		panic("tried to release resource that is not acquired")
	}
	res.pool.releaseAcquiredResource(res, nanotime())
}

// ReleaseUnused returns the resource to the pool without updating when it was last used used. i.e. LastUsedNanotime
// will not change. res must not be subsequently used.
func (res *Resource[T]) ReleaseUnused() {
	vsched.Point("pool.go:63")
	if res.status != resourceStatusAcquired {
		panic("tried to release resource that is not acquired")
	}
	res.pool.releaseAcquiredResource(res, res.lastUsedNano)
}

// Destroy returns the resource to the pool for destruction. res must not be
// subsequently used.
func (res *Resource[T]) Destroy() {
	vsched.Point("pool.go:72")
	if res.status != resourceStatusAcquired {
		panic("tried to destroy resource that is not acquired")
	}
	{
		_vf1 := res.pool.destroyAcquiredResource
		_va2 := res
		vsched.Go("pool.go:76", func() {
			_vf1(_va2)
		})
	}
}

// Hijack assumes ownership of the resource from the pool. Caller is responsible
// for cleanup of resource value.
func (res *Resource[T]) Hijack() {
	vsched.Point("pool.go:81")
	if res.status != resourceStatusAcquired {
		panic("tried to hijack resource that is not acquired")
	}
	res.pool.hijackAcquiredResource(res)
}

// CreationTime returns when the resource was created by the pool.
func (res *Resource[T]) CreationTime() time.Time {
	vsched.Point("pool.go:89")
	if !(res.status == resourceStatusAcquired || res.status == resourceStatusHijacked) {
		panic("tried to access resource that is not acquired or hijacked")
	}
	return res.creationTime
}

// LastUsedNanotime returns when Release was last called on the resource measured in nanoseconds from an arbitrary time
// (a monotonic time). Returns creation time if Release has never been called. This is only useful to compare with
// other calls to LastUsedNanotime. In almost all cases, IdleDuration should be used instead.
func (res *Resource[T]) LastUsedNanotime() int64 {
	vsched.Point("pool.go:99")
	if !(res.status == resourceStatusAcquired || res.status == resourceStatusHijacked) {
		panic("tried to access resource that is not acquired or hijacked")
	}

	return res.lastUsedNano
}

// IdleDuration returns the duration since Release was last called on the resource. This is equivalent to subtracting
// LastUsedNanotime to the current nanotime.
func (res *Resource[T]) IdleDuration() time.Duration {
	vsched.Point("pool.go:109")
	if !(res.status == resourceStatusAcquired || res.status == resourceStatusHijacked) {
		panic("tried to access resource that is not acquired or hijacked")
	}

	return time.Duration(nanotime() - res.lastUsedNano)
}

// Pool is a concurrency-safe resource pool.
type Pool[T any] struct {
	// mux is the pool internal lock. Any modification of shared state of
	// the pool (but Acquires of acquireSem) must be performed only by
	// holder of the lock. Long running operations are not allowed when mux
	// is held.
	mux sync.Mutex
	// acquireSem provides an allowance to acquire a resource.
	//
	// Releases are allowed only when caller holds mux. Acquires have to
	// happen before mux is locked (doesn't apply to semaphore.TryAcquire in
	// AcquireAllIdle).
	acquireSem *semaphore.Weighted
	destructWG sync.WaitGroup

	allResources  resList[T]
	idleResources *genstack.GenStack[*Resource[T]]

	constructor Constructor[T]
	destructor  Destructor[T]
	maxSize     int32

	acquireCount         int64
	acquireDuration      time.Duration
	emptyAcquireCount    int64
	emptyAcquireWaitTime time.Duration
	canceledAcquireCount atomic.Int64

	resetCount int

	baseAcquireCtx       context.Context
	cancelBaseAcquireCtx context.CancelFunc
	closed               bool
}

type Config[T any] struct {
	Constructor Constructor[T]
	Destructor  Destructor[T]
	MaxSize     int32
}

// NewPool creates a new pool. Returns an error iff MaxSize is less than 1.
func NewPool[T any](config *Config[T]) (*Pool[T], error) {
	vsched.Point("pool.go:159")
	if config.MaxSize < 1 {
		return nil, errors.New("MaxSize must be >= 1")
	}

	baseAcquireCtx, cancelBaseAcquireCtx := context.WithCancel(context.Background())

	return &Pool[T]{
		acquireSem:           semaphore.NewWeighted(int64(config.MaxSize)),
		idleResources:        genstack.NewGenStack[*Resource[T]](),
		maxSize:              config.MaxSize,
		constructor:          config.Constructor,
		destructor:           config.Destructor,
		baseAcquireCtx:       baseAcquireCtx,
		cancelBaseAcquireCtx: cancelBaseAcquireCtx,
	}, nil
}

// Close destroys all resources in the pool and rejects future Acquire calls.
// Blocks until all resources are returned to pool and destroyed.
func (p *Pool[T]) Close() {
	vsched.Point("pool.go:179")
	defer p.destructWG.Wait()

	p.mux.Lock()
	defer p.mux.Unlock()

	if p.closed {
		return
	}
	p.closed = true
	vsched.PointCtxWrite("pool.go:189")
	p.cancelBaseAcquireCtx()

	for res, ok := p.idleResources.Pop(); ok; res, ok = p.idleResources.Pop() {
		p.allResources.remove(res)
		{
			_vf3 := p.destructResourceValue
			_va4 := res.value
			vsched.Go("pool.go:193", func() {
				_vf3(_va4)
			})
		}
	}
}

// Stat is a snapshot of Pool statistics.
type Stat struct {
	constructingResources int32
	acquiredResources     int32
	idleResources         int32
	maxResources          int32
	acquireCount          int64
	acquireDuration       time.Duration
	emptyAcquireCount     int64
	emptyAcquireWaitTime  time.Duration
	canceledAcquireCount  int64
}

// TotalResources returns the total number of resources currently in the pool.
// The value is the sum of ConstructingResources, AcquiredResources, and
// IdleResources.
func (s *Stat) TotalResources() int32 {
	vsched.Point("pool.go:213")
	return s.constructingResources + s.acquiredResources + s.idleResources
}

// ConstructingResources returns the number of resources with construction in progress in
// the pool.
func (s *Stat) ConstructingResources() int32 {
	vsched.Point("pool.go:219")
	return s.constructingResources
}

// AcquiredResources returns the number of currently acquired resources in the pool.
func (s *Stat) AcquiredResources() int32 {
	vsched.Point("pool.go:224")
	return s.acquiredResources
}

// IdleResources returns the number of currently idle resources in the pool.
func (s *Stat) IdleResources() int32 {
	vsched.Point("pool.go:229")
	return s.idleResources
}

// MaxResources returns the maximum size of the pool.
func (s *Stat) MaxResources() int32 {
	vsched.Point("pool.go:234")
	return s.maxResources
}

// AcquireCount returns the cumulative count of successful acquires from the pool.
func (s *Stat) AcquireCount() int64 {
	vsched.Point("pool.go:239")
	return s.acquireCount
}

// AcquireDuration returns the total duration of all successful acquires from
// the pool.
func (s *Stat) AcquireDuration() time.Duration {
	vsched.Point("pool.go:245")
	return s.acquireDuration
}

// EmptyAcquireCount returns the cumulative count of successful acquires from the pool
// that waited for a resource to be released or constructed because the pool was
// empty.
func (s *Stat) EmptyAcquireCount() int64 {
	vsched.Point("pool.go:252")
	return s.emptyAcquireCount
}

// EmptyAcquireWaitTime returns the cumulative time waited for successful acquires
// from the pool for a resource to be released or constructed because the pool was
// empty.
func (s *Stat) EmptyAcquireWaitTime() time.Duration {
	vsched.Point("pool.go:259")
	return s.emptyAcquireWaitTime
}

// CanceledAcquireCount returns the cumulative count of acquires from the pool
// that were canceled by a context.
func (s *Stat) CanceledAcquireCount() int64 {
	vsched.Point("pool.go:265")
	return s.canceledAcquireCount
}

// Stat returns the current pool statistics.
func (p *Pool[T]) Stat() *Stat {
	vsched.Point("pool.go:270")
	p.mux.Lock()
	defer p.mux.Unlock()

	s := &Stat{
		maxResources:         p.maxSize,
		acquireCount:         p.acquireCount,
		emptyAcquireCount:    p.emptyAcquireCount,
		emptyAcquireWaitTime: p.emptyAcquireWaitTime,
		canceledAcquireCount: p.canceledAcquireCount.Load(),
		acquireDuration:      p.acquireDuration,
	}

	for _, res := range p.allResources {
		switch res.status {
		case resourceStatusConstructing:
			s.constructingResources += 1
		case resourceStatusIdle:
			s.idleResources += 1
		case resourceStatusAcquired:
			s.acquiredResources += 1
		}
	}

	return s
}

// tryAcquireIdleResource checks if there is any idle resource. If there is
// some, this method removes it from idle list and returns it. If the idle pool
// is empty, this method returns nil and doesn't modify the idleResources slice.
//
// WARNING: Caller of this method must hold the pool mutex!
func (p *Pool[T]) tryAcquireIdleResource() *Resource[T] {
	res, ok := p.idleResources.Pop()
	if !ok {
		return nil
	}

	res.status = resourceStatusAcquired
	return res
}

// createNewResource creates a new resource and inserts it into list of pool
// resources.
//
// WARNING: Caller of this method must hold the pool mutex!
func (p *Pool[T]) createNewResource() *Resource[T] {
	res := &Resource[T]{
		pool:           p,
		creationTime:   time.Now(),
		lastUsedNano:   nanotime(),
		poolResetCount: p.resetCount,
		status:         resourceStatusConstructing,
	}

	p.allResources.append(res)
	p.destructWG.Add(1)

	return res
}

// Acquire gets a resource from the pool. If no resources are available and the pool is not at maximum capacity it will
// create a new resource. If the pool is at maximum capacity it will block until a resource is available. ctx can be
// used to cancel the Acquire.
//
// If Acquire creates a new resource the resource constructor function will receive a context that delegates Value() to
// ctx. Canceling ctx will cause Acquire to return immediately but it will not cancel the resource creation. This avoids
// the problem of it being impossible to create resources when the time to create a resource is greater than any one
// caller of Acquire is willing to wait.
func (p *Pool[T]) Acquire(ctx context.Context) (_ *Resource[T], err error) {
	vsched.Point("pool.go:339")
	{
		_vc7 := ctx.Done()
		_vi8, _, _ := vsched.Select("pool.go:340", true, vsched.R(_vc7))
		switch _vi8 {
		case 0:
			p.canceledAcquireCount.Add(1)
			vsched.PointCtxRead("pool.go:343")
			return nil, ctx.Err()
		default:
		}
	}

	return p.acquire(ctx)
}

// acquire is a continuation of Acquire function that doesn't check context
// validity.
//
// This function exists solely only for benchmarking purposes.
func (p *Pool[T]) acquire(ctx context.Context) (*Resource[T], error) {
	startNano := nanotime()

	var waitedForLock bool
	if !p.acquireSem.TryAcquire(1) {
		waitedForLock = true
		err := p.acquireSem.Acquire(ctx, 1)
		if err != nil {
			p.canceledAcquireCount.Add(1)
			return nil, err
		}
	}

	p.mux.Lock()
	if p.closed {
		p.acquireSem.Release(1)
		p.mux.Unlock()
		return nil, ErrClosedPool
	}

	if res := p.tryAcquireIdleResource(); res != nil {
		waitTime := time.Duration(nanotime() - startNano)
		if waitedForLock {
			p.emptyAcquireCount += 1
			p.emptyAcquireWaitTime += waitTime
		}
		p.acquireCount += 1
		p.acquireDuration += waitTime
		p.mux.Unlock()
		return res, nil
	}

	if len(p.allResources) >= int(p.maxSize) {

		panic("bug: semaphore allowed more acquires than pool allows")
	}

	res := p.createNewResource()
	p.mux.Unlock()

	res, err := p.initResourceValue(ctx, res)
	if err != nil {
		return nil, err
	}

	p.mux.Lock()
	defer p.mux.Unlock()

	p.emptyAcquireCount += 1
	p.acquireCount += 1
	waitTime := time.Duration(nanotime() - startNano)
	p.acquireDuration += waitTime
	p.emptyAcquireWaitTime += waitTime

	return res, nil
}

func (p *Pool[T]) initResourceValue(ctx context.Context, res *Resource[T]) (*Resource[T], error) {

	constructErrChan := make(chan error)
	vsched.Go("pool.go:421", func() {
		constructorCtx := newValueCancelCtx(ctx, p.baseAcquireCtx)
		value, err := p.constructor(constructorCtx)
		if err != nil {
			p.mux.Lock()
			p.allResources.remove(res)
			vsched.PointCtxRead("pool.go:427")
			p.destructWG.Done()

			p.acquireSem.Release(1)
			p.mux.Unlock()
			{
				_vc11 := constructErrChan
				_vc12 := ctx.Done()
				_vi13, _, _ := vsched.Select("pool.go:435", false, vsched.Sd(_vc11, err), vsched.R(_vc12))
				switch _vi13 {
				case 0:
				case 1:
				default:
					panic("vsched: bad select index")
				}
			}

			return
		}

		p.mux.Lock()
		res.value = value
		res.status = resourceStatusAcquired
		p.mux.Unlock()
		{
			_vc16 := constructErrChan
			_vc17 := ctx.Done()
			_vi18, _, _ := vsched.Select("pool.go:452", false, vsched.Sd(_vc16, nil), vsched.R(_vc17))
			switch _vi18 {
			case 0:
			case 1:

				p.releaseAcquiredResource(res, res.lastUsedNano)
			default:
				panic("vsched: bad select index")
			}
		}

	})
	{
		_vc21 := ctx.Done()
		_vc22 := constructErrChan
		_vi23, _vrv19, _ := vsched.Select("pool.go:459", false, vsched.R(_vc21), vsched.R(_vc22))
		switch _vi23 {
		case 0:
			p.canceledAcquireCount.Add(1)
			vsched.PointCtxRead("pool.go:462")
			return nil, ctx.Err()
		case 1:
			err := vsched.Val(_vc22, _vrv19)
			_ = err
			if err != nil {
				return nil, err
			}
			return res, nil
		default:
			panic("vsched: bad select index")
		}
	}

}

// TryAcquire gets a resource from the pool if one is immediately available. If not, it returns ErrNotAvailable. If no
// resources are available but the pool has room to grow, a resource will be created in the background. ctx is only
// used to cancel the background creation.
func (p *Pool[T]) TryAcquire(ctx context.Context) (*Resource[T], error) {
	vsched.Point("pool.go:474")
	if !p.acquireSem.TryAcquire(1) {
		return nil, ErrNotAvailable
	}

	p.mux.Lock()
	defer p.mux.Unlock()

	if p.closed {
		p.acquireSem.Release(1)
		return nil, ErrClosedPool
	}

	if res := p.tryAcquireIdleResource(); res != nil {
		p.acquireCount += 1
		return res, nil
	}

	if len(p.allResources) >= int(p.maxSize) {

		panic("bug: semaphore allowed more acquires than pool allows")
	}

	res := p.createNewResource()
	vsched.Go("pool.go:499", func() {
		value, err := p.constructor(ctx)

		p.mux.Lock()
		defer p.mux.Unlock()

		defer p.acquireSem.Release(1)

		if err != nil {
			p.allResources.remove(res)
			vsched.PointCtxRead("pool.go:511")
			p.destructWG.Done()
			return
		}

		res.value = value
		res.status = resourceStatusIdle
		p.idleResources.Push(res)
	})

	return nil, ErrNotAvailable
}

// acquireSemAll tries to acquire num free tokens from sem. This function is
// guaranteed to acquire at least the lowest number of tokens that has been
// available in the semaphore during runtime of this function.
//
// For the time being, semaphore doesn't allow to acquire all tokens atomically
// (see https://github.com/golang/sync/pull/19). We simulate this by trying all
// powers of 2 that are less or equal to num.
//
// For example, let's immagine we have 19 free tokens in the semaphore which in
// total has 24 tokens (i.e. the maxSize of the pool is 24 resources). Then if
// num is 24, the log2Uint(24) is 4 and we try to acquire 16, 8, 4, 2 and 1
// tokens. Out of those, the acquire of 16, 2 and 1 tokens will succeed.
//
// Naturally, Acquires and Releases of the semaphore might take place
// concurrently. For this reason, it's not guaranteed that absolutely all free
// tokens in the semaphore will be acquired. But it's guaranteed that at least
// the minimal number of tokens that has been present over the whole process
// will be acquired. This is sufficient for the use-case we have in this
// package.
//
// TODO: Replace this with acquireSem.TryAcquireAll() if it gets to
// upstream. https://github.com/golang/sync/pull/19
func acquireSemAll(sem *semaphore.Weighted, num int) int {
	if sem.TryAcquire(int64(num)) {
		return num
	}

	var acquired int
	for i := int(log2Int(num)); i >= 0; i-- {
		val := 1 << i
		if sem.TryAcquire(int64(val)) {
			acquired += val
		}
	}

	return acquired
}

// AcquireAllIdle acquires all currently idle resources. Its intended use is for
// health check and keep-alive functionality. It does not update pool
// statistics.
func (p *Pool[T]) AcquireAllIdle() []*Resource[T] {
	vsched.Point("pool.go:564")
	p.mux.Lock()
	defer p.mux.Unlock()

	if p.closed {
		return nil
	}

	numIdle := p.idleResources.Len()
	if numIdle == 0 {
		return nil
	}

	acquired := acquireSemAll(p.acquireSem, numIdle)

	idle := make([]*Resource[T], acquired)
	for i := range idle {
		res, _ := p.idleResources.Pop()
		res.status = resourceStatusAcquired
		idle[i] = res
	}

	p.idleResources.NextGen()

	return idle
}

// CreateResource constructs a new resource without acquiring it. It goes straight in the IdlePool. If the pool is full
// it returns an error. It can be useful to maintain warm resources under little load.
func (p *Pool[T]) CreateResource(ctx context.Context) error {
	vsched.Point("pool.go:607")
	if !p.acquireSem.TryAcquire(1) {
		return ErrNotAvailable
	}

	p.mux.Lock()
	if p.closed {
		p.acquireSem.Release(1)
		p.mux.Unlock()
		return ErrClosedPool
	}

	if len(p.allResources) >= int(p.maxSize) {
		p.acquireSem.Release(1)
		p.mux.Unlock()
		return ErrNotAvailable
	}

	res := p.createNewResource()
	p.mux.Unlock()

	value, err := p.constructor(ctx)
	p.mux.Lock()
	defer p.mux.Unlock()
	defer p.acquireSem.Release(1)
	if err != nil {
		p.allResources.remove(res)
		vsched.PointCtxRead("pool.go:634")
		p.destructWG.Done()
		return err
	}

	res.value = value
	res.status = resourceStatusIdle

	if p.closed {
		{
			_vf24 := p.destructResourceValue
			_va25 := res.value
			vsched.Go("pool.go:643", func() {
				_vf24(_va25)
			})
		}
		return ErrClosedPool
	}

	p.idleResources.Push(res)

	return nil
}

// Reset destroys all resources, but leaves the pool open. It is intended for use when an error is detected that would
// disrupt all resources (such as a network interruption or a server state change).
//
// It is safe to reset a pool while resources are checked out. Those resources will be destroyed when they are returned
// to the pool.
func (p *Pool[T]) Reset() {
	vsched.Point("pool.go:657")
	p.mux.Lock()
	defer p.mux.Unlock()

	p.resetCount++

	for res, ok := p.idleResources.Pop(); ok; res, ok = p.idleResources.Pop() {
		p.allResources.remove(res)
		{
			_vf26 := p.destructResourceValue
			_va27 := res.value
			vsched.Go("pool.go:665", func() {
				_vf26(_va27)
			})
		}
	}
}

// releaseAcquiredResource returns res to the the pool.
func (p *Pool[T]) releaseAcquiredResource(res *Resource[T], lastUsedNano int64) {
	p.mux.Lock()
	defer p.mux.Unlock()
	defer p.acquireSem.Release(1)

	if p.closed || res.poolResetCount != p.resetCount {
		p.allResources.remove(res)
		{
			_vf28 := p.destructResourceValue
			_va29 := res.value
			vsched.Go("pool.go:677", func() {
				_vf28(_va29)
			})
		}
	} else {
		res.lastUsedNano = lastUsedNano
		res.status = resourceStatusIdle
		p.idleResources.Push(res)
	}
}

// Remove removes res from the pool and closes it. If res is not part of the
// pool Remove will panic.
func (p *Pool[T]) destroyAcquiredResource(res *Resource[T]) {
	p.destructResourceValue(res.value)

	p.mux.Lock()
	defer p.mux.Unlock()
	defer p.acquireSem.Release(1)

	p.allResources.remove(res)
}

func (p *Pool[T]) hijackAcquiredResource(res *Resource[T]) {
	p.mux.Lock()
	defer p.mux.Unlock()
	defer p.acquireSem.Release(1)

	p.allResources.remove(res)
	res.status = resourceStatusHijacked
	vsched.PointCtxRead("pool.go:704")
	p.destructWG.Done()
}

func (p *Pool[T]) destructResourceValue(value T) {
	p.destructor(value)
	vsched.PointCtxRead("pool.go:709")
	p.destructWG.Done()
}
