module github.com/jackc/puddle/v2

go 1.19

require (
	github.com/stretchr/testify v1.8.1
	golang.org/x/sync v0.1.0
)

require (
	github.com/davecgh/go-spew v1.1.1 // indirect
	github.com/pmezard/go-difflib v1.0.0 // indirect
	gopkg.in/yaml.v3 v3.0.1 // indirect
)
