// Package puddle is a generic resource pool with type-parametrized api.
/*

Puddle is a tiny generic resource pool library for Go that uses the standard
context library to signal cancellation of acquires. It is designed to contain
the minimum functionality a resource pool needs that cannot be implemented
without concurrency concerns. For example, a database connection pool may use
puddle internally and implement health checks and keep-alive behavior without
needing to implement any concurrent code of its own.
*/
package puddle
