package puddle

type resList[T any] []*Resource[T]

func (l *resList[T]) append(val *Resource[T]) { *l = append(*l, val) }

func (l *resList[T]) popBack() *Resource[T] {
	idx := len(*l) - 1
	val := (*l)[idx]
	(*l)[idx] = nil // Avoid memory leak
	*l = (*l)[:idx]

	return val
}

func (l *resList[T]) remove(val *Resource[T]) {
	for i, elem := range *l {
		if elem == val {
			lastIdx := len(*l) - 1
			(*l)[i] = (*l)[lastIdx]
			(*l)[lastIdx] = nil // Avoid memory leak
			(*l) = (*l)[:lastIdx]
			return
		}
	}

	panic("BUG: removeResource could not find res in slice")
}
