package puddle

import (
	"context"
	"time"
)

// valueCancelCtx combines two contexts into one. One context is used for values and the other is used for cancellation.
type valueCancelCtx struct {
	valueCtx  context.Context
	cancelCtx context.Context
}

func (ctx *valueCancelCtx) Deadline() (time.Time, bool) { return ctx.cancelCtx.Deadline() }
func (ctx *valueCancelCtx) Done() <-chan struct{}       { return ctx.cancelCtx.Done() }
func (ctx *valueCancelCtx) Err() error                  { return ctx.cancelCtx.Err() }
func (ctx *valueCancelCtx) Value(key any) any           { return ctx.valueCtx.Value(key) }

func newValueCancelCtx(valueCtx, cancelContext context.Context) context.Context {
	return &valueCancelCtx{
		valueCtx:  valueCtx,
		cancelCtx: cancelContext,
	}
}
