package puddle

import "time"

// nanotime returns the time in nanoseconds since process start.
//
// This approach, described at
// https://github.com/golang/go/issues/61765#issuecomment-1672090302,
// is fast, monotonic, and portable, and avoids the previous
// dependence on runtime.nanotime using the (unsafe) linkname hack.
// In particular, time.Since does less work than time.Now.
func nanotime() int64 {
	return time.Since(globalStart).Nanoseconds()
}

var globalStart = time.Now()
