package genstack

// stack is a wrapper around an array implementing a stack.
//
// We cannot use slice to represent the stack because append might change the
// pointer value of the slice. That would be an issue in GenStack
// implementation.
type stack[T any] struct {
	arr []T
}

// push pushes a new element at the top of a stack.
func (s *stack[T]) push(vs ...T) { s.arr = append(s.arr, vs...) }

// pop pops the stack top-most element.
//
// If stack length is zero, this method panics.
func (s *stack[T]) pop() T {
	idx := s.len() - 1
	val := s.arr[idx]

	// Avoid memory leak
	var zero T
	s.arr[idx] = zero

	s.arr = s.arr[:idx]
	return val
}

// takeAll returns all elements in the stack in order as they are stored - i.e.
// the top-most stack element is the last one.
func (s *stack[T]) takeAll() []T {
	arr := s.arr
	s.arr = nil
	return arr
}

// len returns number of elements in the stack.
func (s *stack[T]) len() int { return len(s.arr) }
