package genstack

// GenStack implements a generational stack.
//
// GenStack works as common stack except for the fact that all elements in the
// older generation are guaranteed to be popped before any element in the newer
// generation. New elements are always pushed to the current (newest)
// generation.
//
// We could also say that GenStack behaves as a stack in case of a single
// generation, but it behaves as a queue of individual generation stacks.
type GenStack[T any] struct {
	// We can represent arbitrary number of generations using 2 stacks. The
	// new stack stores all new pushes and the old stack serves all reads.
	// Old stack can represent multiple generations. If old == new, then all
	// elements pushed in previous (not current) generations have already
	// been popped.

	old *stack[T]
	new *stack[T]
}

// NewGenStack creates a new empty GenStack.
func NewGenStack[T any]() *GenStack[T] {
	s := &stack[T]{}
	return &GenStack[T]{
		old: s,
		new: s,
	}
}

func (s *GenStack[T]) Pop() (T, bool) {
	// Pushes always append to the new stack, so if the old once becomes
	// empty, it will remail empty forever.
	if s.old.len() == 0 && s.old != s.new {
		s.old = s.new
	}

	if s.old.len() == 0 {
		var zero T
		return zero, false
	}

	return s.old.pop(), true
}

// Push pushes a new element at the top of the stack.
func (s *GenStack[T]) Push(v T) { s.new.push(v) }

// NextGen starts a new stack generation.
func (s *GenStack[T]) NextGen() {
	if s.old == s.new {
		s.new = &stack[T]{}
		return
	}

	// We need to pop from the old stack to the top of the new stack. Let's
	// have an example:
	//
	//   Old: <bottom> 4 3 2 1
	//   New: <bottom> 8 7 6 5
	//   PopOrder: 1 2 3 4 5 6 7 8
	//
	//
	// To preserve pop order, we have to take all elements from the old
	// stack and push them to the top of new stack:
	//
	//   New: 8 7 6 5 4 3 2 1
	//
	s.new.push(s.old.takeAll()...)

	// We have the old stack allocated and empty, so why not to reuse it as
	// new new stack.
	s.old, s.new = s.new, s.old
}

// Len returns number of elements in the stack.
func (s *GenStack[T]) Len() int {
	l := s.old.len()
	if s.old != s.new {
		l += s.new.len()
	}

	return l
}
