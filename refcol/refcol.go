// Package refcol is the type-directed reference codec of the ClickHouse native column
// format: it parses a type string into a tree and encodes / decodes plain values without
// touching the library's proto package.
//
// Values: a scalar is its wire bytes ([]byte; for String the string's bytes), NULL is
// nil, Array is []any, Tuple is Tup, Map is []KV (ordered).
package refcol

import (
	"bytes"
	"errors"
	"fmt"
	"strconv"
	"strings"

	"verif/refwire"
)

type Kind int

const (
	Fixed Kind = iota
	String
	Nullable
	Array
	Map
	Tuple
	LowCard
)

type Tup []any

type KV struct{ K, V any }

type Type struct {
	Kind  Kind
	Name  string // normalised type string
	Base  string // base identifier (e.g. "DateTime64")
	Args  []string
	Width int
	Elems []*Type
	Names []string // named tuple fields ("" when positional)
}

var fixedWidths = map[string]int{
	"Int8": 1, "Int16": 2, "Int32": 4, "Int64": 8, "Int128": 16, "Int256": 32,
	"UInt8": 1, "UInt16": 2, "UInt32": 4, "UInt64": 8, "UInt128": 16, "UInt256": 32,
	"Float32": 4, "Float64": 8, "Bool": 1, "UUID": 16, "IPv4": 4, "IPv6": 16,
	"Date": 2, "Date32": 4, "DateTime": 4, "DateTime64": 8, "Enum8": 1, "Enum16": 2,
	"Decimal32": 4, "Decimal64": 8, "Decimal128": 16, "Decimal256": 32, "Nothing": 1,
	"IntervalSecond": 8, "IntervalMinute": 8, "IntervalHour": 8, "IntervalDay": 8, "IntervalWeek": 8,
	"IntervalMonth": 8, "IntervalQuarter": 8, "IntervalYear": 8,
}

// splitArgs splits "a, b(c,d), 'x,y'" at top-level commas.
func splitArgs(s string) ([]string, error) {
	var out []string
	depth, start := 0, 0
	inQ := false
	for i := 0; i < len(s); i++ {
		ch := s[i]
		switch {
		case inQ:
			if ch == '\\' {
				i++
			} else if ch == '\'' {
				inQ = false
			}
		case ch == '\'':
			inQ = true
		case ch == '(':
			depth++
		case ch == ')':
			depth--
			if depth < 0 {
				return nil, errors.New("unbalanced )")
			}
		case ch == ',' && depth == 0:
			out = append(out, strings.TrimSpace(s[start:i]))
			start = i + 1
		}
	}
	if depth != 0 || inQ {
		return nil, errors.New("unbalanced")
	}
	last := strings.TrimSpace(s[start:])
	if last != "" || len(out) > 0 {
		out = append(out, last)
	}
	return out, nil
}

// Parse parses a ClickHouse type string.
func Parse(s string) (*Type, error) {
	s = strings.TrimSpace(s)
	if s == "" {
		return nil, errors.New("empty type")
	}
	base, args := s, []string(nil)
	if i := strings.IndexByte(s, '('); i >= 0 {
		if !strings.HasSuffix(s, ")") {
			return nil, fmt.Errorf("bad type %q", s)
		}
		base = strings.TrimSpace(s[:i])
		var err error
		args, err = splitArgs(s[i+1 : len(s)-1])
		if err != nil {
			return nil, fmt.Errorf("bad type %q: %v", s, err)
		}
	}
	t := &Type{Name: s, Base: base, Args: args}
	sub := func(a string) (*Type, error) { return Parse(a) }
	switch base {
	case "String", "JSON":
		if len(args) != 0 {
			return nil, fmt.Errorf("%s takes no parameters", base)
		}
		t.Kind = String
	case "FixedString":
		if len(args) != 1 {
			return nil, errors.New("FixedString(N)")
		}
		n, err := strconv.Atoi(args[0])
		if err != nil || n <= 0 {
			return nil, fmt.Errorf("FixedString size %q", args[0])
		}
		t.Kind, t.Width = Fixed, n
	case "Decimal":
		if len(args) != 2 {
			return nil, errors.New("Decimal(P, S)")
		}
		p, err := strconv.Atoi(args[0])
		if err != nil || p < 1 || p > 76 {
			return nil, fmt.Errorf("decimal precision %q", args[0])
		}
		switch {
		case p <= 9:
			t.Width = 4
		case p <= 18:
			t.Width = 8
		case p <= 38:
			t.Width = 16
		default:
			t.Width = 32
		}
		t.Kind = Fixed
	case "Nullable", "Array", "LowCardinality":
		if len(args) != 1 {
			return nil, fmt.Errorf("%s takes one type", base)
		}
		e, err := sub(args[0])
		if err != nil {
			return nil, err
		}
		t.Elems = []*Type{e}
		t.Kind = map[string]Kind{"Nullable": Nullable, "Array": Array, "LowCardinality": LowCard}[base]
	case "Map":
		if len(args) != 2 {
			return nil, errors.New("Map(K, V)")
		}
		k, err := sub(args[0])
		if err != nil {
			return nil, err
		}
		v, err := sub(args[1])
		if err != nil {
			return nil, err
		}
		t.Kind, t.Elems = Map, []*Type{k, v}
	case "Tuple":
		if len(args) == 0 {
			return nil, errors.New("empty Tuple")
		}
		t.Kind = Tuple
		for _, a := range args {
			name := ""
			// "name Type" form: first token is an identifier followed by a space and a type
			if i := strings.IndexByte(a, ' '); i > 0 && !strings.ContainsAny(a[:i], "(',") {
				if _, err := Parse(a); err != nil {
					name, a = a[:i], strings.TrimSpace(a[i+1:])
				}
			}
			e, err := sub(a)
			if err != nil {
				return nil, err
			}
			t.Elems = append(t.Elems, e)
			t.Names = append(t.Names, name)
		}
	case "Point":
		f, _ := Parse("Float64")
		t.Kind, t.Elems, t.Names = Tuple, []*Type{f, f}, []string{"", ""}
	default:
		w, ok := fixedWidths[base]
		if !ok {
			return nil, fmt.Errorf("unknown type %q", base)
		}
		t.Kind, t.Width = Fixed, w
	}
	return t, nil
}

func MustParse(s string) *Type {
	t, err := Parse(s)
	if err != nil {
		panic(err)
	}
	return t
}

// ---- encoding ----

// LCKeyWidth, when >= 0, forces the key width code (0..3 = UInt8..UInt64) the reference
// encoder uses for LowCardinality columns: every width that can hold the keys is valid on
// the wire, the library itself always writes the narrowest.
var LCKeyWidth = -1

// EncodeColumn writes the column body as it appears inside a block: state prefixes, then
// data. Nothing is written for zero rows.
func (t *Type) EncodeColumn(w *refwire.W, vals []any) {
	if len(vals) == 0 {
		return
	}
	t.encodeState(w)
	t.encodeData(w, vals)
}

func (t *Type) encodeState(w *refwire.W) {
	switch t.Kind {
	case String:
		if t.Base == "JSON" {
			w.U64(1) // JSON-as-string serialization version
		}
	case LowCard:
		w.U64(1) // shared dictionaries with additional keys
		t.Elems[0].encodeState(w)
	case Nullable, Array:
		t.Elems[0].encodeState(w)
	case Map, Tuple:
		for _, e := range t.Elems {
			e.encodeState(w)
		}
	}
}

func scalarKey(v any) string {
	switch x := v.(type) {
	case nil:
		return "\x00null"
	case []byte:
		return "b" + string(x)
	default:
		return fmt.Sprintf("%#v", v)
	}
}

// NullSlotZero selects what the reference writer puts into the masked slot of a NULL: false —
// the type's default (for an enum its first declared member, as the data type inserts it);
// true — all-zero bytes (what a server's numeric column holds after a plain NULL insert, also
// for enums without a member 0). Both occur on the wire; the slot is masked either way.
var NullSlotZero bool

func (t *Type) zero() any {
	switch t.Kind {
	case Fixed:
		if (t.Base == "Enum8" || t.Base == "Enum16") && len(t.Args) > 0 && !NullSlotZero {
			// the default of an enum is its first declared member (0 need not be one)
			if _, v, ok := strings.Cut(t.Args[0], "="); ok {
				if n, err := strconv.Atoi(strings.TrimSpace(v)); err == nil {
					b := make([]byte, t.Width)
					b[0] = byte(n)
					if t.Width == 2 {
						b[1] = byte(n >> 8)
					}
					return b
				}
			}
		}
		return make([]byte, t.Width)
	case String:
		return []byte{}
	case Array:
		return []any{}
	case Map:
		return []KV{}
	case Tuple:
		out := make(Tup, len(t.Elems))
		for i, e := range t.Elems {
			out[i] = e.zero()
		}
		return out
	case Nullable:
		return nil
	case LowCard:
		return t.Elems[0].zero()
	}
	return nil
}

func (t *Type) encodeData(w *refwire.W, vals []any) {
	if len(vals) == 0 {
		return
	}
	switch t.Kind {
	case Fixed:
		for _, v := range vals {
			b := v.([]byte)
			if len(b) != t.Width {
				panic(fmt.Sprintf("refcol: %s value has %d bytes, want %d", t.Name, len(b), t.Width))
			}
			w.Raw(b)
		}
	case String:
		for _, v := range vals {
			b := v.([]byte)
			w.UVarint(uint64(len(b)))
			w.Raw(b)
		}
	case Nullable:
		inner := make([]any, len(vals))
		for i, v := range vals {
			if v == nil {
				w.Byte(1)
				inner[i] = t.Elems[0].zero()
			} else {
				w.Byte(0)
				inner[i] = v
			}
		}
		t.Elems[0].encodeData(w, inner)
	case Array:
		var flat []any
		for _, v := range vals {
			flat = append(flat, v.([]any)...)
			w.U64(uint64(len(flat)))
		}
		t.Elems[0].encodeData(w, flat)
	case Map:
		var ks, vs []any
		for _, v := range vals {
			for _, kv := range v.([]KV) {
				ks = append(ks, kv.K)
				vs = append(vs, kv.V)
			}
			w.U64(uint64(len(ks)))
		}
		t.Elems[0].encodeData(w, ks)
		t.Elems[1].encodeData(w, vs)
	case Tuple:
		for i, e := range t.Elems {
			col := make([]any, len(vals))
			for j, v := range vals {
				col[j] = v.(Tup)[i]
			}
			e.encodeData(w, col)
		}
	case LowCard:
		// dictionary in order of first appearance; smallest key width that fits
		idx := map[string]int{}
		var dict []any
		keys := make([]int, len(vals))
		for i, v := range vals {
			k := scalarKey(v)
			j, ok := idx[k]
			if !ok {
				j = len(dict)
				idx[k] = j
				dict = append(dict, v)
			}
			keys[i] = j
		}
		kw := 0
		switch {
		case len(dict) <= 1<<8:
			kw = 0
		case len(dict) <= 1<<16:
			kw = 1
		default:
			kw = 2
		}
		if LCKeyWidth > kw {
			kw = LCKeyWidth
		}
		w.U64(uint64(kw) | 1<<9 | 1<<10)
		w.U64(uint64(len(dict)))
		t.Elems[0].encodeData(w, dict)
		w.U64(uint64(len(vals)))
		for _, k := range keys {
			switch kw {
			case 0:
				w.Byte(byte(k))
			case 1:
				w.U16(uint16(k))
			case 2:
				w.U32(uint32(k))
			case 3:
				w.U64(uint64(k))
			}
		}
	}
}

// ---- decoding ----

// MaxRows bounds every row count the reference decoder accepts (hostile inputs).
const MaxRows = 1 << 24

// DecodeColumn reads a column body of the given row count (state prefixes, then data).
func (t *Type) DecodeColumn(r *refwire.R, rows int) []any {
	if rows == 0 {
		return nil
	}
	t.decodeState(r)
	return t.decodeData(r, rows)
}

func (t *Type) decodeState(r *refwire.R) {
	switch t.Kind {
	case String:
		if t.Base == "JSON" {
			if v := r.U64(); v != 1 && r.Err == nil {
				r.Err = fmt.Errorf("refcol: JSON serialization version %d", v)
			}
		}
	case LowCard:
		if v := r.U64(); v != 1 && r.Err == nil {
			r.Err = fmt.Errorf("refcol: low cardinality serialization version %d", v)
		}
		t.Elems[0].decodeState(r)
	case Nullable, Array:
		t.Elems[0].decodeState(r)
	case Map, Tuple:
		for _, e := range t.Elems {
			e.decodeState(r)
		}
	}
}

func (t *Type) decodeData(r *refwire.R, rows int) []any {
	if rows == 0 || r.Err != nil {
		return nil
	}
	if rows < 0 || rows > MaxRows {
		r.Err = fmt.Errorf("refcol: %d rows", rows)
		return nil
	}
	out := make([]any, 0, min(rows, 1<<16))
	switch t.Kind {
	case Fixed:
		for i := 0; i < rows && r.Err == nil; i++ {
			b := r.Raw(t.Width)
			out = append(out, append([]byte(nil), b...))
		}
	case String:
		for i := 0; i < rows && r.Err == nil; i++ {
			n := r.UVarint()
			if n > uint64(r.Left()) {
				r.Err = refwire.ErrShort
				break
			}
			out = append(out, append([]byte{}, r.Raw(int(n))...))
		}
	case Nullable:
		mask := append([]byte(nil), r.Raw(rows)...)
		inner := t.Elems[0].decodeData(r, rows)
		if r.Err != nil {
			return nil
		}
		for i := 0; i < rows; i++ {
			if mask[i] > 1 {
				r.Err = fmt.Errorf("refcol: null mask byte %d", mask[i])
				return nil
			}
			if mask[i] == 1 {
				out = append(out, nil)
			} else {
				out = append(out, inner[i])
			}
		}
	case Array, Map:
		offs := make([]uint64, rows)
		prev := uint64(0)
		for i := range offs {
			offs[i] = r.U64()
			if offs[i] < prev || offs[i] > MaxRows {
				if r.Err == nil {
					r.Err = fmt.Errorf("refcol: offsets not monotonic / too large (%d after %d)", offs[i], prev)
				}
				return nil
			}
			prev = offs[i]
		}
		if r.Err != nil {
			return nil
		}
		total := int(prev)
		if t.Kind == Array {
			flat := t.Elems[0].decodeData(r, total)
			if r.Err != nil {
				return nil
			}
			start := 0
			for _, o := range offs {
				row := make([]any, 0, int(o)-start)
				row = append(row, flat[start:int(o)]...)
				out = append(out, row)
				start = int(o)
			}
		} else {
			ks := t.Elems[0].decodeData(r, total)
			vs := t.Elems[1].decodeData(r, total)
			if r.Err != nil {
				return nil
			}
			start := 0
			for _, o := range offs {
				row := make([]KV, 0, int(o)-start)
				for j := start; j < int(o); j++ {
					row = append(row, KV{ks[j], vs[j]})
				}
				out = append(out, row)
				start = int(o)
			}
		}
	case Tuple:
		cols := make([][]any, len(t.Elems))
		for i, e := range t.Elems {
			cols[i] = e.decodeData(r, rows)
		}
		if r.Err != nil {
			return nil
		}
		for j := 0; j < rows; j++ {
			tp := make(Tup, len(t.Elems))
			for i := range t.Elems {
				tp[i] = cols[i][j]
			}
			out = append(out, tp)
		}
	case LowCard:
		meta := r.U64()
		if r.Err != nil {
			return nil
		}
		if meta&(1<<9) == 0 {
			r.Err = errors.New("refcol: low cardinality without additional keys")
			return nil
		}
		if meta&(1<<8) != 0 {
			r.Err = errors.New("refcol: global dictionaries not modelled")
			return nil
		}
		kw := int(meta & 0xff)
		if kw > 3 {
			r.Err = fmt.Errorf("refcol: key width code %d", kw)
			return nil
		}
		dn := r.U64()
		if dn > MaxRows {
			if r.Err == nil {
				r.Err = fmt.Errorf("refcol: dictionary of %d", dn)
			}
			return nil
		}
		dict := t.Elems[0].decodeData(r, int(dn))
		kn := r.U64()
		if r.Err != nil {
			return nil
		}
		if kn != uint64(rows) {
			r.Err = fmt.Errorf("refcol: %d keys for %d rows", kn, rows)
			return nil
		}
		for i := 0; i < rows && r.Err == nil; i++ {
			var k uint64
			switch kw {
			case 0:
				k = uint64(r.Byte())
			case 1:
				k = uint64(r.U16())
			case 2:
				k = uint64(r.U32())
			case 3:
				k = r.U64()
			}
			if r.Err != nil {
				break
			}
			if k >= dn {
				r.Err = fmt.Errorf("refcol: key %d outside dictionary of %d", k, dn)
				break
			}
			out = append(out, dict[k])
		}
	}
	if r.Err != nil {
		return nil
	}
	return out
}

// Equal compares two values structurally.
func Equal(a, b any) bool {
	switch x := a.(type) {
	case nil:
		return b == nil
	case []byte:
		y, ok := b.([]byte)
		return ok && bytes.Equal(x, y)
	case []any:
		y, ok := b.([]any)
		if !ok || len(x) != len(y) {
			return false
		}
		for i := range x {
			if !Equal(x[i], y[i]) {
				return false
			}
		}
		return true
	case Tup:
		y, ok := b.(Tup)
		if !ok || len(x) != len(y) {
			return false
		}
		for i := range x {
			if !Equal(x[i], y[i]) {
				return false
			}
		}
		return true
	case []KV:
		y, ok := b.([]KV)
		if !ok || len(x) != len(y) {
			return false
		}
		for i := range x {
			if !Equal(x[i].K, y[i].K) || !Equal(x[i].V, y[i].V) {
				return false
			}
		}
		return true
	}
	return false
}

// Show renders a value compactly for reports.
func Show(v any) string {
	switch x := v.(type) {
	case nil:
		return "NULL"
	case []byte:
		if len(x) > 24 {
			return fmt.Sprintf("%x…(%d)", x[:24], len(x))
		}
		return fmt.Sprintf("%x", x)
	case []any:
		parts := make([]string, len(x))
		for i := range x {
			parts[i] = Show(x[i])
		}
		return "[" + strings.Join(parts, ",") + "]"
	case Tup:
		parts := make([]string, len(x))
		for i := range x {
			parts[i] = Show(x[i])
		}
		return "(" + strings.Join(parts, ",") + ")"
	case []KV:
		parts := make([]string, len(x))
		for i := range x {
			parts[i] = Show(x[i].K) + ":" + Show(x[i].V)
		}
		return "{" + strings.Join(parts, ",") + "}"
	}
	return fmt.Sprint(v)
}

// ---- blocks ----

// BlockCol is a column of a reference block.
type BlockCol struct {
	Name string
	Type *Type
	Vals []any
}

// EncodeBlockBody writes block info / counts / columns at revision rev.
func EncodeBlockBody(w *refwire.W, rev int, info refwire.BlockInfo, rows int, cols []BlockCol) {
	b := refwire.Block{Info: info, Rows: rows}
	for _, c := range cols {
		var cw refwire.W
		c.Type.EncodeColumn(&cw, c.Vals)
		b.Columns = append(b.Columns, refwire.Column{Name: c.Name, Type: c.Type.Name, Body: cw.B})
	}
	b.EncodeBody(w, rev)
}

// DecodeBlockBody parses a block body (info, counts, columns) at revision rev.
func DecodeBlockBody(r *refwire.R, rev int) (info refwire.BlockInfo, rows int, cols []BlockCol) {
	if rev >= refwire.RevBlockInfo {
		info = refwire.DecodeBlockInfo(r)
	}
	nc := r.UVarint()
	nr := r.UVarint()
	if r.Err != nil {
		return
	}
	if nc > 1<<20 || nr > MaxRows {
		r.Err = fmt.Errorf("refcol: block of %d columns x %d rows", nc, nr)
		return
	}
	rows = int(nr)
	for i := 0; i < int(nc) && r.Err == nil; i++ {
		name := r.Str()
		ts := r.Str()
		if rev >= refwire.RevCustomSerialization {
			if r.Bool() && r.Err == nil {
				r.Err = errors.New("refcol: custom serialization not modelled")
			}
		}
		if r.Err != nil {
			return
		}
		t, err := Parse(ts)
		if err != nil {
			r.Err = err
			return
		}
		vals := t.DecodeColumn(r, rows)
		cols = append(cols, BlockCol{Name: name, Type: t, Vals: vals})
	}
	return
}
