// Package vk is the small kit shared by all check workers: shard selection, result
// accumulation (counts, distinct sets, samples, violations) and the JSON hand-off to the
// driver (cmd/vcheck).
package vk

import (
	"encoding/hex"
	"encoding/json"
	"flag"
	"fmt"
	"hash/fnv"
	"os"
	"sort"
	"strings"
	"sync"
	"time"
)

// Violation is one failing case. Key is structural (which function / scenario / shape
// fails), never the concrete mutant, so that the known-findings file can list it and a
// different failure of the same property has a different key.
type Violation struct {
	Key    string `json:"key"`
	Case   string `json:"case"`   // id of the failing case; `-only <case>` re-runs it
	Detail string `json:"detail"` // expected / observed
	Extra  any    `json:"extra,omitempty"`
}

// Result is what one worker shard reports.
type Result struct {
	Property    string            `json:"property"`
	Tier        string            `json:"tier"`
	Flavour     string            `json:"flavour"`
	Shard       int               `json:"shard"`
	NShards     int               `json:"nshards"`
	Evaluations int64             `json:"evaluations"`
	Distinct    int64             `json:"distinct"`
	States      int64             `json:"states"`
	Transitions int64             `json:"transitions"`
	Traces      int64             `json:"traces"`
	Samples     []any             `json:"samples"`
	Violations  []Violation       `json:"violations"`
	ViolCount   map[string]int64  `json:"viol_count"`
	Exhaustive  bool              `json:"exhaustive"`
	BudgetHit   bool              `json:"budget_hit"`
	Bound       int               `json:"bound_completed"`
	Rule        string            `json:"rule"`
	Groups      map[string]int64  `json:"groups"`     // evaluations per named sub-space
	Outcomes    map[string]int64  `json:"outcomes"`   // distinct observed outcomes (small sets only)
	Transcript  map[string]string `json:"transcript"` // for cross-build comparison
	Notes       []string          `json:"notes"`
	WallS       float64           `json:"wall_s"`
}

// Ctx is handed to a check.
type Ctx struct {
	Prop, Tier    string
	Shard, N      int
	Seed          int64
	Only          string // when set, evaluate only the case with this id
	Budget        time.Duration
	Flavour       string
	start         time.Time
	mu            sync.Mutex
	res           Result
	distinct      map[uint64]struct{}
	side          *os.File
	caseCounter   int64
	maxViolPerKey int
	resume        string
	out           string
	lastCkpt      time.Time
	curID         string
	curSince      time.Time
	Stall         time.Duration // when > 0: a case running longer than this is reported and ends the worker
	StallKey      string
}

var (
	fProp    = flag.String("prop", "", "property id")
	fTier    = flag.String("tier", "quick", "quick|thorough")
	fShard   = flag.Int("shard", 0, "shard index")
	fN       = flag.Int("nshards", 1, "number of shards")
	fSeed    = flag.Int64("seed", 0, "seed for filler contents")
	fOut     = flag.String("out", "", "result file")
	fSide    = flag.String("side", "", "side file receiving the id of the case being evaluated")
	fOnly    = flag.String("only", "", "evaluate only this case id")
	fBudget  = flag.Duration("budget", 0, "internal wall-clock budget (0 = none)")
	fFlavour = flag.String("flavour", "default", "build flavour label")
	fResume  = flag.String("resume", "", "skip all cases up to and including this case id (restart after a crash)")
)

// Check is a property check body.
type Check func(c *Ctx)

// Main parses flags, runs the selected check and writes the result.
func Main(checks map[string]Check) {
	flag.Parse()
	chk, ok := checks[*fProp]
	if !ok {
		fmt.Fprintf(os.Stderr, "worker: no check for %q in this binary\n", *fProp)
		os.Exit(2)
	}
	c := &Ctx{Prop: *fProp, Tier: *fTier, Shard: *fShard, N: *fN, Seed: *fSeed, Only: *fOnly, Budget: *fBudget, Flavour: *fFlavour,
		start: time.Now(), distinct: map[uint64]struct{}{}, maxViolPerKey: 3}
	c.res = Result{Property: c.Prop, Tier: c.Tier, Flavour: c.Flavour, Shard: c.Shard, NShards: c.N, Exhaustive: true,
		ViolCount: map[string]int64{}, Groups: map[string]int64{}, Outcomes: map[string]int64{}, Transcript: map[string]string{}}
	if *fSide != "" {
		f, err := os.Create(*fSide)
		if err == nil {
			c.side = f
		}
	}
	c.resume, c.out = *fResume, *fOut
	chk(c)
	c.Finish()
}

// Finish writes the result file (also used for checkpoints and emergency exits).
func (c *Ctx) Finish() {
	c.mu.Lock()
	res := c.res
	res.Distinct += int64(len(c.distinct))
	res.WallS = time.Since(c.start).Seconds()
	b, err := json.Marshal(&res)
	c.mu.Unlock()
	if err != nil {
		fmt.Fprintln(os.Stderr, "worker: marshal:", err)
		os.Exit(2)
	}
	if c.out == "" {
		os.Stdout.Write(b)
		return
	}
	tmp := c.out + ".tmp"
	if err := os.WriteFile(tmp, b, 0o644); err != nil {
		fmt.Fprintln(os.Stderr, "worker:", err)
		os.Exit(2)
	}
	os.Rename(tmp, c.out)
}

// Resuming reports whether the case must be skipped because the worker was restarted
// after a crash and has not yet passed the case it died in.
func (c *Ctx) Resuming(id string) bool {
	if c.resume == "" {
		return false
	}
	if id == c.resume {
		c.resume = ""
	}
	return true
}

// Watchdog reports a case that does not terminate: the violation is recorded, the result
// written and the process ended (the stuck goroutine cannot be stopped any other way).
func (c *Ctx) Watchdog(limit time.Duration, key string) {
	c.Stall, c.StallKey = limit, key
	go func() {
		for {
			time.Sleep(time.Second)
			c.mu.Lock()
			id, since := c.curID, c.curSince
			c.mu.Unlock()
			if id != "" && time.Since(since) > limit {
				if c.Only == "" {
					// A worker that has been running for minutes under memory pressure, next to
					// other workers, is a poor stopwatch: leave the verdict to a fresh process that
					// runs this one case alone (the driver re-runs the case a worker died on).
					fmt.Fprintf(os.Stderr, "watchdog: %s exceeded %v in a loaded worker; exiting for an isolated re-run\n", id, limit)
					os.Exit(3)
				}
				if time.Since(since) > 4*limit {
					c.Violation(key, id, fmt.Sprintf("decoding did not terminate within %v (one case alone in a fresh process)", 4*limit), nil)
					c.NotExhaustive()
					c.Finish()
					os.Exit(0)
				}
			}
		}
	}()
}

func (c *Ctx) Quick() bool { return c.Tier != "thorough" }

// Mine reports whether case number i (in enumeration order) belongs to this shard.
func (c *Ctx) Mine(i int64) bool { return c.N <= 1 || int(i%int64(c.N)) == c.Shard }

// Next numbers cases in enumeration order and reports whether the case is to be
// evaluated by this shard (and matches -only when given).
func (c *Ctx) Next(id string) bool {
	i := c.caseCounter
	c.caseCounter++
	if c.Only != "" {
		return id == c.Only
	}
	return c.Mine(i)
}

// OverBudget reports whether the internal budget fired; the run is then not exhaustive.
func (c *Ctx) OverBudget() bool {
	if c.Budget > 0 && time.Since(c.start) > c.Budget {
		c.mu.Lock()
		c.res.BudgetHit = true
		c.res.Exhaustive = false
		c.mu.Unlock()
		return true
	}
	return false
}

// Current records the id of the case about to be evaluated (crash attribution).
func (c *Ctx) Current(id string) {
	if c.side != nil {
		c.side.Truncate(0)
		c.side.WriteAt([]byte(id), 0)
	}
	if c.Stall > 0 {
		c.mu.Lock()
		c.curID, c.curSince = id, time.Now()
		c.mu.Unlock()
	}
}

// Checkpoint writes the result file if the last checkpoint is older than 2 s (so that a
// crashing worker leaves its counts behind).
func (c *Ctx) Checkpoint() {
	if time.Since(c.lastCkpt) > 2*time.Second {
		c.lastCkpt = time.Now()
		c.Finish()
	}
}

func (c *Ctx) Eval(group string, n int64) {
	c.mu.Lock()
	c.res.Evaluations += n
	c.res.Groups[group] += n
	c.mu.Unlock()
}

// Distinct counts a case as distinct and non-trivial; h identifies it.
func (c *Ctx) Distinct(h uint64) {
	c.mu.Lock()
	c.distinct[h] = struct{}{}
	c.mu.Unlock()
}

// DistinctN adds n cases known to be pairwise distinct by construction.
func (c *Ctx) DistinctN(n int64) { c.mu.Lock(); c.res.Distinct += n; c.mu.Unlock() }

func (c *Ctx) AddStates(states, transitions, traces int64) {
	c.mu.Lock()
	c.res.States += states
	c.res.Transitions += transitions
	c.res.Traces += traces
	c.mu.Unlock()
}

func (c *Ctx) Outcome(o string) { c.mu.Lock(); c.res.Outcomes[o]++; c.mu.Unlock() }

func (c *Ctx) Sample(s any) {
	c.mu.Lock()
	if len(c.res.Samples) < 4 {
		c.res.Samples = append(c.res.Samples, s)
	}
	c.mu.Unlock()
}

func (c *Ctx) Note(format string, a ...any) {
	c.mu.Lock()
	if len(c.res.Notes) < 40 {
		c.res.Notes = append(c.res.Notes, fmt.Sprintf(format, a...))
	}
	c.mu.Unlock()
}

func (c *Ctx) Rule(r string)       { c.res.Rule = r }
func (c *Ctx) NotExhaustive()      { c.mu.Lock(); c.res.Exhaustive = false; c.mu.Unlock() }
func (c *Ctx) SetBound(b int)      { c.res.Bound = b }
func (c *Ctx) T(key, value string) { c.mu.Lock(); c.res.Transcript[key] = value; c.mu.Unlock() }

// Violation records a failing case (a few per key are kept in full, all are counted).
func (c *Ctx) Violation(key, caseID, detail string, extra any) {
	c.mu.Lock()
	defer c.mu.Unlock()
	c.res.ViolCount[key]++
	if int(c.res.ViolCount[key]) <= c.maxViolPerKey {
		if len(detail) > 1500 {
			detail = detail[:1500] + "…"
		}
		c.res.Violations = append(c.res.Violations, Violation{Key: key, Case: caseID, Detail: detail, Extra: extra})
	}
}

func (c *Ctx) Elapsed() time.Duration { return time.Since(c.start) }

// ---- helpers ----

func Hash(parts ...any) uint64 {
	h := fnv.New64a()
	for _, p := range parts {
		switch x := p.(type) {
		case []byte:
			h.Write(x)
		case string:
			h.Write([]byte(x))
		default:
			fmt.Fprint(h, x)
		}
		h.Write([]byte{0})
	}
	return h.Sum64()
}

func Hex(b []byte) string {
	if len(b) > 96 {
		return hex.EncodeToString(b[:96]) + fmt.Sprintf("…(+%d bytes)", len(b)-96)
	}
	return hex.EncodeToString(b)
}

// Xorshift is the deterministic filler generator (contents only; never decides coverage).
type Xorshift uint64

func NewFiller(seed int64, salt uint64) *Xorshift {
	x := Xorshift(uint64(seed)*0x9e3779b97f4a7c15 ^ salt ^ 0x2545F4914F6CDD1D)
	if x == 0 {
		x = 1
	}
	return &x
}

func (x *Xorshift) Next() uint64 {
	v := uint64(*x)
	v ^= v << 13
	v ^= v >> 7
	v ^= v << 17
	*x = Xorshift(v)
	return v
}

func (x *Xorshift) Bytes(n int) []byte {
	b := make([]byte, n)
	for i := range b {
		b[i] = byte(x.Next() >> 24)
	}
	return b
}

// SortedKeys returns the keys of m in order.
func SortedKeys[V any](m map[string]V) []string {
	ks := make([]string, 0, len(m))
	for k := range m {
		ks = append(ks, k)
	}
	sort.Strings(ks)
	return ks
}

// Recover runs f and returns a description of the panic, if any, with the innermost
// library function on the stack ("" when f returned normally).
func Recover(f func()) (msg string, fn string) {
	defer func() {
		if r := recover(); r != nil {
			msg = fmt.Sprint(r)
			fn = panicSite()
		}
	}()
	f()
	return "", ""
}

func panicSite() string {
	buf := make([]byte, 16<<10)
	buf = buf[:runtimeStack(buf)]
	lines := strings.Split(string(buf), "\n")
	seenPanic := false
	for _, l := range lines {
		if strings.HasPrefix(l, "panic(") {
			seenPanic = true
			continue
		}
		if !seenPanic || strings.HasPrefix(l, "\t") || strings.HasPrefix(l, "runtime.") {
			continue
		}
		if strings.Contains(l, "github.com/ClickHouse/ch-go") {
			if i := strings.LastIndex(l, "("); i > 0 {
				l = l[:i]
			}
			l = strings.TrimPrefix(l, "github.com/ClickHouse/ch-go/")
			// strip generic instantiation noise
			if i := strings.Index(l, "[..."); i > 0 {
				j := strings.Index(l[i:], "]")
				if j > 0 {
					l = l[:i] + l[i+j+1:]
				}
			}
			return l
		}
	}
	return "unknown"
}
