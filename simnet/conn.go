// Package simnet is an in-memory net.Conn whose every call is a scheduling point of
// vrt/vsched and is logged. Fault parameters (all enumerable): delivery segmentation of
// the server->client stream, cut of the server stream after byte k, client write failure
// after byte k, write stall.
package simnet

import (
	"fmt"
	"io"
	"net"
	"os"
	"sync"
	"syscall"
	"time"
	"unsafe"

	"verif/vrt/vsched"
)

type WriteRec struct {
	Thread int
	Data   []byte
	At     time.Duration
}

type Conn struct {
	mu     sync.Mutex // real mutex: gives the race detector the edges a real fd would
	in     []byte     // server -> client, not yet read
	inOff  int        // absolute stream offset of in[0]
	sent   int        // total bytes ever delivered by the peer
	eof    bool
	closed bool
	rdl    time.Time
	wdl    time.Time
	rwake  chan struct{} // closed and replaced on every event (broadcast)
	swake  chan struct{}
	start  time.Time

	Out    []byte // client -> server, everything written
	Writes []WriteRec
	Calls  []string
	Closes int

	// fault parameters (set before use)
	FailWriteAt int   // client write fails once Out would exceed this many bytes (-1: never)
	CutReadAt   int   // the server stream ends (EOF / reset) after this many bytes (-1: never)
	StallReadAt int   // the server falls silent for good after this many bytes, the connection stays up (-1: never)
	stalled     bool
	CutReset    bool  // cut shows as ECONNRESET instead of io.EOF
	Cuts        []int // absolute offsets: a Read never returns bytes across one of them
	OneByte     bool  // every Read returns at most one byte
	EOFWithData bool  // the Read returning the last byte before a cut also returns the cut's error
	CloseErr    error // returned by the first Close (which closes the connection nevertheless)
	StallWrites bool  // Write blocks until its deadline or Close

	ReadBytes       int // total bytes the client has consumed
	CallsAfterClose []string

	// Holder tracking for pool checks: Owner is set by the harness; a call made while
	// Busy by a different owner is recorded in Overlaps.
	Tag      string
	Overlaps []string
	busyBy   string
}

func NewConn() *Conn {
	return &Conn{rwake: make(chan struct{}), swake: make(chan struct{}), FailWriteAt: -1, CutReadAt: -1, StallReadAt: -1, start: time.Now()}
}

// kickR / kickS wake every waiter of the read side / write side.
func (c *Conn) kickR() {
	c.mu.Lock()
	close(c.rwake)
	c.rwake = make(chan struct{})
	c.mu.Unlock()
}

func (c *Conn) kickS() {
	c.mu.Lock()
	c.kickSLocked()
	c.mu.Unlock()
}

func (c *Conn) kickSLocked() {
	close(c.swake)
	c.swake = make(chan struct{})
}

func (c *Conn) obj() uintptr { return uintptr(unsafe.Pointer(c)) }

func (c *Conn) note(call string) {
	// caller holds mu
	if c.closed {
		c.CallsAfterClose = append(c.CallsAfterClose, call)
	}
	if len(c.Calls) < 4096 {
		c.Calls = append(c.Calls, call)
	}
}

// ---- peer side ----

// Deliver makes bytes available to the client (one scheduling point).
func (c *Conn) Deliver(b []byte) {
	vsched.PointObj("peer.Deliver", c.obj())
	c.mu.Lock()
	if c.stalled {
		b = nil
	} else if c.StallReadAt >= 0 && c.sent+len(b) >= c.StallReadAt {
		keep := c.StallReadAt - c.sent
		if keep < 0 {
			keep = 0
		}
		b = b[:keep]
		c.stalled = true
	}
	if c.CutReadAt >= 0 && c.sent+len(b) >= c.CutReadAt {
		keep := c.CutReadAt - c.sent
		if keep < 0 {
			keep = 0
		}
		b = b[:keep]
		c.eof = true
	}
	c.in = append(c.in, b...)
	c.sent += len(b)
	c.mu.Unlock()
	c.kickR()
}

// DeliverAndCut delivers b and ends the stream in one step: with EOFWithData the Read that
// returns the last of these bytes also returns the end-of-stream error, as a transport may
// (io.Reader allows n > 0 together with an error; crypto/tls does it when the peer's
// close_notify travels with the last record).
func (c *Conn) DeliverAndCut(b []byte) {
	vsched.PointObj("peer.Deliver", c.obj())
	c.mu.Lock()
	c.in = append(c.in, b...)
	c.sent += len(b)
	c.eof = true
	c.mu.Unlock()
	c.kickR()
}

// CutRead makes the client see EOF after the pending bytes.
func (c *Conn) CutRead() {
	vsched.PointObj("peer.Cut", c.obj())
	c.mu.Lock()
	c.eof = true
	c.mu.Unlock()
	c.kickR()
}

// Await blocks the calling (controlled) thread until pred holds on the client's output.
func (c *Conn) Await(pred func(out []byte, closed bool) bool) {
	t := vsched.PointObj("peer.Await", c.obj())
	blocked := false
	for {
		c.mu.Lock()
		ok := pred(c.Out, c.closed)
		wake := c.swake
		c.mu.Unlock()
		if ok {
			break
		}
		blocked = true
		<-wake
	}
	if blocked {
		vsched.After(t)
	}
}

// Gap lets fake time pass on the peer's side (one scheduling point + a timer).
func Gap(d time.Duration) { vsched.TimeSleep(d) }

// ---- net.Conn ----

func (c *Conn) cutErr() error {
	if c.CutReset {
		return &net.OpError{Op: "read", Net: "sim", Err: syscall.ECONNRESET}
	}
	return io.EOF
}

func (c *Conn) Read(p []byte) (int, error) {
	t := vsched.PointObj("conn.Read", c.obj())
	blocked := false
	defer func() {
		if blocked {
			vsched.After(t)
		}
	}()
	for {
		c.mu.Lock()
		if c.closed {
			c.note("read-after-close")
			c.mu.Unlock()
			return 0, &net.OpError{Op: "read", Net: "sim", Err: net.ErrClosed}
		}
		if !c.rdl.IsZero() && !time.Now().Before(c.rdl) {
			// as net.Conn: a read deadline that has passed fails the call even when bytes
			// are waiting (the poller checks the deadline before it reads)
			c.note("read-past-deadline")
			c.mu.Unlock()
			return 0, &net.OpError{Op: "read", Net: "sim", Err: os.ErrDeadlineExceeded}
		}
		if len(c.in) > 0 && len(p) > 0 {
			n := len(c.in)
			if n > len(p) {
				n = len(p)
			}
			if c.OneByte {
				n = 1
			}
			for _, cut := range c.Cuts {
				if cut > c.inOff && cut < c.inOff+n {
					n = cut - c.inOff
				}
			}
			copy(p, c.in[:n])
			c.in = c.in[n:]
			c.inOff += n
			c.ReadBytes += n
			c.note("read")
			if c.EOFWithData && c.eof && len(c.in) == 0 {
				err := c.cutErr()
				c.mu.Unlock()
				return n, err
			}
			c.mu.Unlock()
			return n, nil
		}
		if c.eof {
			c.note("read-eof")
			c.mu.Unlock()
			return 0, c.cutErr()
		}
		if len(p) == 0 {
			c.mu.Unlock()
			return 0, nil
		}
		dl := c.rdl
		wake := c.rwake
		c.mu.Unlock()
		if !dl.IsZero() {
			d := time.Until(dl)
			if d <= 0 {
				return 0, &net.OpError{Op: "read", Net: "sim", Err: os.ErrDeadlineExceeded}
			}
			blocked = true
			tm := time.NewTimer(d)
			select {
			case <-wake:
				tm.Stop()
			case <-tm.C:
			}
		} else {
			blocked = true
			<-wake
		}
	}
}

func (c *Conn) Write(p []byte) (int, error) {
	t := vsched.PointObj("conn.Write", c.obj())
	if c.StallWrites {
		blocked := false
		for {
			c.mu.Lock()
			closed, dl := c.closed, c.wdl
			wake := c.swake
			c.mu.Unlock()
			if closed {
				if blocked {
					vsched.After(t)
				}
				return 0, &net.OpError{Op: "write", Net: "sim", Err: net.ErrClosed}
			}
			if !dl.IsZero() {
				d := time.Until(dl)
				if d <= 0 {
					if blocked {
						vsched.After(t)
					}
					return 0, &net.OpError{Op: "write", Net: "sim", Err: os.ErrDeadlineExceeded}
				}
				blocked = true
				tm := time.NewTimer(d)
				select {
				case <-wake:
					tm.Stop()
				case <-tm.C:
				}
			} else {
				blocked = true
				<-wake
			}
		}
	}
	c.mu.Lock()
	defer c.mu.Unlock()
	defer c.kickSLocked()
	tid := -1
	if t != nil {
		tid = t.ID
	}
	if c.closed {
		c.note("write-after-close")
		return 0, &net.OpError{Op: "write", Net: "sim", Err: net.ErrClosed}
	}
	if !c.wdl.IsZero() && !time.Now().Before(c.wdl) {
		c.note("write-past-deadline")
		return 0, &net.OpError{Op: "write", Net: "sim", Err: os.ErrDeadlineExceeded}
	}
	c.note("write")
	at := time.Since(c.start)
	if c.FailWriteAt >= 0 && len(c.Out)+len(p) > c.FailWriteAt {
		n := c.FailWriteAt - len(c.Out)
		if n < 0 {
			n = 0
		}
		c.Out = append(c.Out, p[:n]...)
		c.Writes = append(c.Writes, WriteRec{tid, append([]byte(nil), p[:n]...), at})
		return n, &net.OpError{Op: "write", Net: "sim", Err: syscall.EPIPE}
	}
	c.Out = append(c.Out, p...)
	c.Writes = append(c.Writes, WriteRec{tid, append([]byte(nil), p...), at})
	return len(p), nil
}

func (c *Conn) Close() error {
	vsched.PointObj("conn.Close", c.obj())
	c.mu.Lock()
	c.Closes++
	already := c.closed
	c.closed = true
	if len(c.Calls) < 4096 {
		c.Calls = append(c.Calls, "close")
	}
	c.mu.Unlock()
	c.kickR()
	c.kickS()
	if already {
		return net.ErrClosed
	}
	if c.CloseErr != nil {
		// the connection is torn down all the same; the transport only reports that the
		// teardown was not clean (as crypto/tls does when its close_notify cannot be written)
		return c.CloseErr
	}
	return nil
}

func (c *Conn) IsClosed() bool { c.mu.Lock(); defer c.mu.Unlock(); return c.closed }

func (c *Conn) LocalAddr() net.Addr  { return &net.TCPAddr{IP: net.IPv4(127, 0, 0, 1), Port: 40000} }
func (c *Conn) RemoteAddr() net.Addr { return &net.TCPAddr{IP: net.IPv4(127, 0, 0, 1), Port: 9000} }

func (c *Conn) SetDeadline(t time.Time) error {
	_ = c.SetReadDeadline(t)
	return c.SetWriteDeadline(t)
}

func (c *Conn) SetReadDeadline(t time.Time) error {
	vsched.PointObj("conn.SetReadDeadline", c.obj())
	c.mu.Lock()
	c.note("set-read-deadline")
	old := c.rdl
	c.rdl = t
	c.mu.Unlock()
	if !old.IsZero() {
		vsched.UnregisterTimer(old)
	}
	if !t.IsZero() {
		vsched.RegisterTimer(t)
	}
	c.kickR()
	return nil
}

func (c *Conn) SetWriteDeadline(t time.Time) error {
	vsched.PointObj("conn.SetWriteDeadline", c.obj())
	c.mu.Lock()
	c.note("set-write-deadline")
	old := c.wdl
	c.wdl = t
	c.mu.Unlock()
	if !old.IsZero() {
		vsched.UnregisterTimer(old)
	}
	if !t.IsZero() {
		vsched.RegisterTimer(t)
	}
	c.kickS()
	return nil
}

// ClearWriteFault removes a pending write-failure fault.
// FailWritesFromNow makes the next byte the client writes fail (the transport broke while
// the connection was idle).
func (c *Conn) FailWritesFromNow() {
	c.mu.Lock()
	c.FailWriteAt = len(c.Out)
	c.mu.Unlock()
}

func (c *Conn) ClearWriteFault() {
	c.mu.Lock()
	c.FailWriteAt = -1
	c.mu.Unlock()
}

// Snapshot returns a copy of everything the client wrote.
func (c *Conn) Snapshot() []byte {
	c.mu.Lock()
	defer c.mu.Unlock()
	return append([]byte(nil), c.Out...)
}

// OutLen is the number of bytes the client has written so far.
func (c *Conn) OutLen() int { c.mu.Lock(); defer c.mu.Unlock(); return len(c.Out) }

// Consumed is the number of server bytes the client has read so far.
func (c *Conn) Consumed() int { c.mu.Lock(); defer c.mu.Unlock(); return c.ReadBytes }

// Pending is the number of delivered bytes the client has not read yet.
func (c *Conn) Pending() int { c.mu.Lock(); defer c.mu.Unlock(); return len(c.in) }

// WriteLog returns a copy of the write records.
func (c *Conn) WriteLog() []WriteRec {
	c.mu.Lock()
	defer c.mu.Unlock()
	return append([]WriteRec(nil), c.Writes...)
}

// AfterClose lists calls that reached the connection after Close.
func (c *Conn) AfterClose() []string {
	c.mu.Lock()
	defer c.mu.Unlock()
	return append([]string(nil), c.CallsAfterClose...)
}

// Enter / Leave bracket a holder's use of the connection (pool checks).
func (c *Conn) Enter(owner string) {
	c.mu.Lock()
	if c.busyBy != "" && c.busyBy != owner {
		c.Overlaps = append(c.Overlaps, fmt.Sprintf("%s while %s", owner, c.busyBy))
	}
	c.busyBy = owner
	c.mu.Unlock()
}

func (c *Conn) Leave(owner string) {
	c.mu.Lock()
	if c.busyBy == owner {
		c.busyBy = ""
	}
	c.mu.Unlock()
}
