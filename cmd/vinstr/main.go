// Command vinstr rewrites Go source files so that every synchronisation
// operation goes through verif/vrt/vsched. Spike version.
//
// usage: vinstr [-coarse] -out DIR file.go...   (prints overlay "src dst" lines)
package main

import (
	"bytes"
	"flag"
	"fmt"
	"go/ast"
	"go/format"
	"go/parser"
	"go/token"
	"os"
	"path/filepath"
	"regexp"
	"strconv"
	"strings"

	"golang.org/x/tools/go/ast/astutil"
)

var (
	coarse = flag.Bool("coarse", false, "coarse mode for trusted packages")
	outDir = flag.String("out", "", "output directory")
	prefix = flag.String("prefix", "", "prefix for output file names")
	setConst = flag.String("setconst", "", "name=value: replace the value of a package-level constant (row-cap overlay)")
)

var cancelRe = regexp.MustCompile(`(?i)cancel`)

func main() {
	flag.Parse()
	for _, f := range flag.Args() {
		dst := filepath.Join(*outDir, *prefix+filepath.Base(f))
		if err := instrument(f, dst); err != nil {
			fmt.Fprintf(os.Stderr, "vinstr: %s: %v\n", f, err)
			os.Exit(2)
		}
		fmt.Printf("%s %s\n", f, dst)
	}
}

type inst struct {
	fset   *token.FileSet
	file   *ast.File
	base   string
	used   bool
	skip   map[ast.Node]bool // comm-clause communications handled by the select rewrite
	tmp    int
	errs   []string
	timeNm string
	ctxNm  string
}

func (in *inst) site(n ast.Node) ast.Expr {
	p := in.fset.Position(n.Pos())
	return &ast.BasicLit{Kind: token.STRING, Value: strconv.Quote(fmt.Sprintf("%s:%d", in.base, p.Line))}
}

func sel(pkg, name string) ast.Expr {
	return &ast.SelectorExpr{X: ast.NewIdent(pkg), Sel: ast.NewIdent(name)}
}

func (in *inst) call(name string, args ...ast.Expr) *ast.CallExpr {
	in.used = true
	return &ast.CallExpr{Fun: sel("vsched", name), Args: args}
}

func (in *inst) newTmp(p string) *ast.Ident {
	in.tmp++
	return ast.NewIdent(fmt.Sprintf("_v%s%d", p, in.tmp))
}

func instrument(src, dst string) error {
	fset := token.NewFileSet()
	file, err := parser.ParseFile(fset, src, nil, parser.ParseComments)
	if err != nil {
		return err
	}
	in := &inst{fset: fset, file: file, base: filepath.Base(src), skip: map[ast.Node]bool{}}

	// Import rewrites.
	for _, imp := range file.Imports {
		path, _ := strconv.Unquote(imp.Path.Value)
		switch path {
		case "sync":
			imp.Path.Value = strconv.Quote("verif/vrt/vsync")
			if imp.Name == nil {
				imp.Name = ast.NewIdent("sync")
			}
		case "sync/atomic":
			imp.Path.Value = strconv.Quote("verif/vrt/vatomic")
			if imp.Name == nil {
				imp.Name = ast.NewIdent("atomic")
			}
		case "time":
			in.timeNm = "time"
			if imp.Name != nil {
				in.timeNm = imp.Name.Name
			}
		case "context":
			in.ctxNm = "context"
			if imp.Name != nil {
				in.ctxNm = imp.Name.Name
			}
		}
	}

	if *setConst != "" {
		name, val, _ := strings.Cut(*setConst, "=")
		found := false
		ast.Inspect(file, func(n ast.Node) bool {
			vs, ok := n.(*ast.ValueSpec)
			if !ok {
				return true
			}
			for i, id := range vs.Names {
				if id.Name == name && i < len(vs.Values) {
					vs.Values[i] = &ast.BasicLit{Kind: token.INT, Value: val}
					found = true
				}
			}
			return true
		})
		if !found {
			return fmt.Errorf("constant %s not found", name)
		}
	}

	// Mark communications of select clauses.
	ast.Inspect(file, func(n ast.Node) bool {
		s, ok := n.(*ast.SelectStmt)
		if !ok {
			return true
		}
		for _, c := range s.Body.List {
			cc := c.(*ast.CommClause)
			if cc.Comm == nil {
				continue
			}
			in.skip[cc.Comm] = true
			ast.Inspect(cc.Comm, func(m ast.Node) bool {
				if m != nil {
					in.skip[m] = true
				}
				return true
			})
		}
		return true
	})

	astutil.Apply(file, in.pre, in.post)

	if len(in.errs) > 0 {
		return fmt.Errorf("unsupported constructs: %s", strings.Join(in.errs, "; "))
	}
	if in.used {
		astutil.AddImport(fset, file, "verif/vrt/vsched")
	}
	// Keep only build constraints and directives among comments.
	var keep []*ast.CommentGroup
	for _, cg := range file.Comments {
		if cg.End() < file.Package {
			keep = append(keep, cg)
			continue
		}
		for _, c := range cg.List {
			if strings.HasPrefix(c.Text, "//go:") {
				keep = append(keep, cg)
				break
			}
		}
	}
	file.Comments = keep

	var buf bytes.Buffer
	if err := format.Node(&buf, fset, file); err != nil {
		return err
	}
	return os.WriteFile(dst, buf.Bytes(), 0o644)
}

// trigger reports whether expression tree e (not descending into function
// literals) contains a call that must be preceded by a scheduling point.
func (in *inst) triggerKind(n ast.Node) string {
	kind := ""
	ast.Inspect(n, func(m ast.Node) bool {
		if m == nil || in.skip[m] {
			return false
		}
		switch x := m.(type) {
		case *ast.FuncLit:
			return false
		case *ast.CallExpr:
			if in.isTriggerCall(x) {
				k := "Point"
				if f, ok := x.Fun.(*ast.SelectorExpr); ok && len(x.Args) == 0 && (f.Sel.Name == "Err" || f.Sel.Name == "Done") {
					k = "PointCtxRead"
				} else if nm := funName(x); cancelRe.MatchString(nm) {
					k = "PointCtxWrite"
				}
				if kind == "" || kind == "PointCtxRead" {
					kind = k
				}
			}
		}
		return true
	})
	return kind
}

func funName(c *ast.CallExpr) string {
	switch f := c.Fun.(type) {
	case *ast.Ident:
		return f.Name
	case *ast.SelectorExpr:
		return f.Sel.Name
	}
	return ""
}

func (in *inst) trigger(n ast.Node) bool {
	found := false
	ast.Inspect(n, func(m ast.Node) bool {
		if found || m == nil {
			return false
		}
		if in.skip[m] {
			return false
		}
		switch x := m.(type) {
		case *ast.FuncLit:
			return false
		case *ast.CallExpr:
			if in.isTriggerCall(x) {
				found = true
				return false
			}
		}
		return true
	})
	return found
}

func (in *inst) isTriggerCall(c *ast.CallExpr) bool {
	switch f := c.Fun.(type) {
	case *ast.Ident:
		return cancelRe.MatchString(f.Name) && len(c.Args) <= 1
	case *ast.SelectorExpr:
		name := f.Sel.Name
		if len(c.Args) == 0 && (name == "Err" || name == "Done") {
			return true
		}
		if cancelRe.MatchString(name) && len(c.Args) <= 1 {
			if id, ok := f.X.(*ast.Ident); ok && (id.Name == in.ctxNm || id.Name == "errors") {
				return false
			}
			return true
		}
		if id, ok := f.X.(*ast.Ident); ok {
			if id.Name == in.timeNm && in.timeNm != "" {
				switch name {
				case "Sleep", "After", "NewTimer", "NewTicker", "AfterFunc", "Tick":
					return true
				}
			}
		}
	}
	return false
}

// header returns the parts of a statement that are evaluated when control
// reaches it (nested blocks excluded).
func header(s ast.Stmt) []ast.Node {
	switch x := s.(type) {
	case *ast.ExprStmt, *ast.AssignStmt, *ast.ReturnStmt, *ast.DeclStmt, *ast.IncDecStmt:
		return []ast.Node{x}
	case *ast.IfStmt:
		var out []ast.Node
		if x.Init != nil {
			out = append(out, x.Init)
		}
		out = append(out, x.Cond)
		return out
	case *ast.SwitchStmt:
		var out []ast.Node
		if x.Init != nil {
			out = append(out, x.Init)
		}
		if x.Tag != nil {
			out = append(out, x.Tag)
		}
		return out
	case *ast.TypeSwitchStmt:
		var out []ast.Node
		if x.Init != nil {
			out = append(out, x.Init)
		}
		out = append(out, x.Assign)
		return out
	}
	return nil
}

func (in *inst) pre(c *astutil.Cursor) bool {
	n := c.Node()
	if n == nil {
		return true
	}
	// Unsupported positions for triggers.
	switch x := n.(type) {
	case *ast.ForStmt:
		for _, part := range []ast.Node{x.Cond, x.Post} {
			if part != nil && !isNilNode(part) && in.trigger(part) {
				in.errs = append(in.errs, fmt.Sprintf("%s: trigger in for header", in.fset.Position(x.Pos())))
			}
		}
	case *ast.RangeStmt:
		if in.trigger(x.X) {
			in.errs = append(in.errs, fmt.Sprintf("%s: trigger in range expression", in.fset.Position(x.Pos())))
		}
	}
	return true
}

func isNilNode(n ast.Node) bool {
	switch x := n.(type) {
	case ast.Expr:
		return x == nil
	case ast.Stmt:
		return x == nil
	}
	return false
}

func (in *inst) post(c *astutil.Cursor) bool {
	n := c.Node()
	if n == nil || in.skip[n] {
		return true
	}
	switch x := n.(type) {
	case *ast.GoStmt:
		c.Replace(in.rewriteGo(x))
		return true
	case *ast.SendStmt:
		c.Replace(&ast.ExprStmt{X: in.call("Send", in.site(x), x.Chan, x.Value)})
		return true
	case *ast.UnaryExpr:
		if x.Op == token.ARROW {
			// comma-ok form is handled at the assignment.
			if as, ok := c.Parent().(*ast.AssignStmt); ok && len(as.Lhs) == 2 && len(as.Rhs) == 1 {
				c.Replace(in.call("Recv2", in.site(x), x.X))
			} else if vs, ok := c.Parent().(*ast.ValueSpec); ok && len(vs.Names) == 2 && len(vs.Values) == 1 {
				c.Replace(in.call("Recv2", in.site(x), x.X))
			} else {
				c.Replace(in.call("Recv", in.site(x), x.X))
			}
		}
		return true
	case *ast.CallExpr:
		if id, ok := x.Fun.(*ast.Ident); ok && id.Name == "close" && len(x.Args) == 1 {
			c.Replace(in.call("Close", in.site(x), x.Args[0]))
			return true
		}
		// timer constructors go through vsched so that the clock thread knows the instant
		if s, ok := x.Fun.(*ast.SelectorExpr); ok {
			if id, ok := s.X.(*ast.Ident); ok {
				switch {
				case in.ctxNm != "" && id.Name == in.ctxNm && (s.Sel.Name == "WithTimeout" || s.Sel.Name == "WithDeadline"):
					x.Fun = sel("vsched", "Ctx"+s.Sel.Name)
					in.used = true
				case in.timeNm != "" && id.Name == in.timeNm && (s.Sel.Name == "NewTicker" || s.Sel.Name == "NewTimer" || s.Sel.Name == "After" || s.Sel.Name == "Sleep"):
					x.Fun = sel("vsched", "Time"+s.Sel.Name)
					in.used = true
				case in.timeNm != "" && id.Name == in.timeNm && (s.Sel.Name == "AfterFunc" || s.Sel.Name == "Tick"):
					in.errs = append(in.errs, fmt.Sprintf("%s: time.%s is not supported by the instrumenter", in.fset.Position(x.Pos()), s.Sel.Name))
				}
			}
		}
		return true
	case *ast.SelectStmt:
		c.Replace(in.rewriteSelect(x))
		return true
	case *ast.DeferStmt:
		if in.isTriggerCall(x.Call) {
			if len(x.Call.Args) != 0 {
				in.errs = append(in.errs, fmt.Sprintf("%s: deferred trigger call with arguments", in.fset.Position(x.Pos())))
				return true
			}
			f := in.newTmp("f")
			blk := &ast.BlockStmt{List: []ast.Stmt{
				&ast.AssignStmt{Lhs: []ast.Expr{f}, Tok: token.DEFINE, Rhs: []ast.Expr{x.Call.Fun}},
			}}
			_ = blk
			// defer func() { vsched.Point(site); f() }()  (f evaluated now)
			lit := &ast.FuncLit{Type: &ast.FuncType{Params: &ast.FieldList{}}, Body: &ast.BlockStmt{List: []ast.Stmt{
				&ast.ExprStmt{X: in.call("PointCtxWrite", in.site(x))},
				&ast.ExprStmt{X: &ast.CallExpr{Fun: x.Call.Fun}},
			}}}
			x.Call = &ast.CallExpr{Fun: lit}
		}
		return true
	case *ast.FuncDecl:
		if *coarse && x.Body != nil && x.Name.IsExported() {
			x.Body.List = append([]ast.Stmt{&ast.ExprStmt{X: in.call("Point", in.site(x))}}, x.Body.List...)
		}
		return true
	}
	// Scheduling point before statements (in a list) whose header contains a trigger.
	if st, ok := n.(ast.Stmt); ok && c.Index() >= 0 {
		if _, isDefer := st.(*ast.DeferStmt); isDefer {
			return true
		}
		for _, h := range header(st) {
			if in.trigger(h) {
				c.InsertBefore(&ast.ExprStmt{X: in.call(in.triggerKind(h), in.site(st))})
				break
			}
		}
	} else if ok {
		// Statement not in a list (if-init, else-if...): its triggers are hoisted by the
		// enclosing statement's header scan; an `else if` chain is the one case we reject.
		if ifs, isIf := st.(*ast.IfStmt); isIf {
			if _, parentIf := c.Parent().(*ast.IfStmt); parentIf {
				for _, h := range header(ifs) {
					if in.trigger(h) {
						in.errs = append(in.errs, fmt.Sprintf("%s: trigger in else-if header", in.fset.Position(ifs.Pos())))
					}
				}
			}
		}
	}
	return true
}

func (in *inst) rewriteGo(g *ast.GoStmt) ast.Stmt {
	call := g.Call
	if lit, ok := call.Fun.(*ast.FuncLit); ok && len(call.Args) == 0 && lit.Type.Results == nil {
		return &ast.ExprStmt{X: in.call("Go", in.site(g), lit)}
	}
	// { _f := fun; _a0 := arg0; ...; vsched.Go(site, func() { _f(_a0, ...) }) }
	var list []ast.Stmt
	f := in.newTmp("f")
	list = append(list, &ast.AssignStmt{Lhs: []ast.Expr{f}, Tok: token.DEFINE, Rhs: []ast.Expr{call.Fun}})
	var args []ast.Expr
	for _, a := range call.Args {
		t := in.newTmp("a")
		list = append(list, &ast.AssignStmt{Lhs: []ast.Expr{t}, Tok: token.DEFINE, Rhs: []ast.Expr{a}})
		args = append(args, t)
	}
	inner := &ast.CallExpr{Fun: f, Args: args, Ellipsis: call.Ellipsis}
	lit := &ast.FuncLit{Type: &ast.FuncType{Params: &ast.FieldList{}}, Body: &ast.BlockStmt{List: []ast.Stmt{&ast.ExprStmt{X: inner}}}}
	list = append(list, &ast.ExprStmt{X: in.call("Go", in.site(g), lit)})
	return &ast.BlockStmt{List: list}
}

func (in *inst) rewriteSelect(s *ast.SelectStmt) ast.Stmt {
	var pre []ast.Stmt
	var cases []ast.Expr
	var clauses []ast.Stmt
	hasDefault := false
	idx := 0
	rv := in.newTmp("rv")
	okv := in.newTmp("ok")
	useRv, useOk := false, false
	for _, c := range s.Body.List {
		cc := c.(*ast.CommClause)
		if cc.Comm == nil {
			hasDefault = true
			clauses = append(clauses, &ast.CaseClause{List: nil, Body: cc.Body})
			continue
		}
		chTmp := in.newTmp("c")
		var body []ast.Stmt
		switch comm := cc.Comm.(type) {
		case *ast.SendStmt:
			pre = append(pre, &ast.AssignStmt{Lhs: []ast.Expr{chTmp}, Tok: token.DEFINE, Rhs: []ast.Expr{comm.Chan}})
			cases = append(cases, in.call("Sd", chTmp, comm.Value))
		case *ast.ExprStmt:
			u := comm.X.(*ast.UnaryExpr)
			pre = append(pre, &ast.AssignStmt{Lhs: []ast.Expr{chTmp}, Tok: token.DEFINE, Rhs: []ast.Expr{u.X}})
			cases = append(cases, in.call("R", chTmp))
		case *ast.AssignStmt:
			u := comm.Rhs[0].(*ast.UnaryExpr)
			pre = append(pre, &ast.AssignStmt{Lhs: []ast.Expr{chTmp}, Tok: token.DEFINE, Rhs: []ast.Expr{u.X}})
			cases = append(cases, in.call("R", chTmp))
			useRv = true
			rhs := []ast.Expr{in.call("Val", chTmp, rv)}
			if len(comm.Lhs) == 2 {
				useOk = true
				rhs = append(rhs, okv)
			}
			body = append(body, &ast.AssignStmt{Lhs: comm.Lhs, Tok: comm.Tok, Rhs: rhs})
			// silence "declared and not used" for := forms
			if comm.Tok == token.DEFINE {
				for _, l := range comm.Lhs {
					if id, ok := l.(*ast.Ident); ok && id.Name != "_" {
						body = append(body, &ast.AssignStmt{Lhs: []ast.Expr{ast.NewIdent("_")}, Tok: token.ASSIGN, Rhs: []ast.Expr{ast.NewIdent(id.Name)}})
					}
				}
			}
		}
		body = append(body, cc.Body...)
		clauses = append(clauses, &ast.CaseClause{List: []ast.Expr{&ast.BasicLit{Kind: token.INT, Value: strconv.Itoa(idx)}}, Body: body})
		idx++
	}
	if !hasDefault {
		clauses = append(clauses, &ast.CaseClause{List: nil, Body: []ast.Stmt{&ast.ExprStmt{X: &ast.CallExpr{Fun: ast.NewIdent("panic"), Args: []ast.Expr{&ast.BasicLit{Kind: token.STRING, Value: strconv.Quote("vsched: bad select index")}}}}}})
	}
	iv := in.newTmp("i")
	lhs := []ast.Expr{iv, ast.NewIdent("_"), ast.NewIdent("_")}
	if useRv {
		lhs[1] = rv
	}
	if useOk {
		lhs[2] = okv
	}
	args := []ast.Expr{in.site(s), ast.NewIdent(strconv.FormatBool(hasDefault))}
	args = append(args, cases...)
	assign := &ast.AssignStmt{Lhs: lhs, Tok: token.DEFINE, Rhs: []ast.Expr{in.call("Select", args...)}}
	sw := &ast.SwitchStmt{Tag: iv, Body: &ast.BlockStmt{List: clauses}}
	list := append(pre, assign, sw)
	return &ast.BlockStmt{List: list}
}
