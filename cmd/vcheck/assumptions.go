package main

var common = []string{
	"the Go toolchain, runtime and standard library are correct",
	"bounds are bounds: nothing is claimed outside the enumerated space described in coverage.rule",
}

var perProp = map[string][]string{
	"C20": {"package time is used only to carry instants; day numbers and expected values come from an independent civil-calendar implementation that is cross-checked against package time on every day"},
}

func assumptions(prop string) []string {
	return append(append([]string{}, common...), perProp[prop]...)
}
