// Command vcheck is the driver of every check: it regenerates instrumented sources from
// /repo's working tree, builds the worker binaries a property needs, runs the shards,
// aggregates their results, applies known_findings.json, writes evidence/<id>.json and
// sets the exit status (0 held / 1 violation / 2 harness error).
//
//	vcheck setup
//	vcheck run <id> [--tier quick|thorough]
//	vcheck replay <replay-file>
package main

import (
	"bytes"
	"crypto/sha1"
	"encoding/json"
	"fmt"
	"os"
	"os/exec"
	"path/filepath"
	"sort"
	"strconv"
	"strings"
	"sync"
	"time"

	"verif/vk"
)

// repoDir is the tree under verification: /repo, unless VERIF_REPO names another checkout
// (used only for background experiments on a snapshot; registered checks never set it).
var repoDir = func() string {
	if d := os.Getenv("VERIF_REPO"); d != "" {
		return d
	}
	return "/repo"
}()

// modArgs returns the -modfile argument that redirects the ch-go replacement when the tree
// under verification is not /repo.
func modArgs() []string {
	if repoDir == "/repo" {
		return nil
	}
	b, err := os.ReadFile(filepath.Join(verifDir, "go.mod"))
	if err != nil {
		harnessErr("%v", err)
	}
	alt := strings.ReplaceAll(string(b), "=> /repo", "=> "+repoDir)
	alt = strings.ReplaceAll(alt, "=> ./gen/", "=> "+filepath.Join(verifDir, "gen")+"/")
	os.MkdirAll(filepath.Join(verifDir, "gen/tmp"), 0o755)
	os.WriteFile(filepath.Join(verifDir, "gen/tmp/alt.mod"), []byte(alt), 0o644)
	sum, _ := os.ReadFile(filepath.Join(verifDir, "go.sum"))
	os.WriteFile(filepath.Join(verifDir, "gen/tmp/alt.sum"), sum, 0o644)
	return []string{"-modfile=" + filepath.Join(verifDir, "gen/tmp/alt.mod")}
}

func goArgs(args ...string) []string {
	// args[0] is the go subcommand ("build" / "test"): flags go right after it
	return append(append([]string{args[0]}, modArgs()...), args[1:]...)
}

// verifDir is the root of the verification tree: the working directory when it holds this
// module (so that a snapshot of /verif runs on its own files), /verif otherwise.
var verifDir = func() string {
	if wd, err := os.Getwd(); err == nil {
		if _, err := os.Stat(filepath.Join(wd, "cmd", "vcheck", "main.go")); err == nil {
			return wd
		}
	}
	return "/verif"
}()

type spec struct {
	Level    string
	Flavours []string // worker builds to run; results are merged
	Shards   int
	ThorN    int    // thorough tier: number of shards (0 = Shards); more shards than cores run in waves, each worker process lives shorter
	Diff     bool   // compare transcripts of the first two flavours line by line
	QuickB   string // internal budgets handed to workers
	ThorB    string
	MemKB    int // ulimit -v for workers (0 = none)
}

var specs = map[string]spec{
	"C01": {Level: "exploration", Flavours: []string{"seq", "seq-purego"}, Shards: 7, Diff: true, QuickB: "100s", ThorB: "15m"},
	"C02": {Level: "exploration", Flavours: []string{"sched"}, Shards: 14, QuickB: "100s", ThorB: "15m"},
	"C03": {Level: "exploration", Flavours: []string{"sched"}, Shards: 14, QuickB: "100s", ThorB: "15m"},
	"C04": {Level: "model_checking", Flavours: []string{"sched"}, Shards: 14, QuickB: "100s", ThorB: "20m"},
	"C05": {Level: "fault_enumeration", Flavours: []string{"seq"}, Shards: 14, QuickB: "100s", ThorB: "15m", MemKB: 3 << 20}, // address-space limit: an allocation driven by an unverified size field aborts the worker inside library code, which is attributed to the frame being read
	"C06": {Level: "fault_enumeration", Flavours: []string{"seqcap"}, Shards: 14, QuickB: "100s", ThorB: "15m", MemKB: 3 << 20},
	"C07": {Level: "fault_enumeration", Flavours: []string{"seq"}, Shards: 14, QuickB: "100s", ThorB: "15m"},
	"C08": {Level: "exploration", Flavours: []string{"sched", "seq"}, Shards: 7, QuickB: "100s", ThorB: "15m"},
	"C09": {Level: "model_checking", Flavours: []string{"sched"}, Shards: 14, QuickB: "100s", ThorB: "15m"},
	"C10": {Level: "model_checking", Flavours: []string{"sched"}, Shards: 14, QuickB: "100s", ThorB: "20m"},
	"C11": {Level: "model_checking", Flavours: []string{"sched"}, Shards: 14, QuickB: "100s", ThorB: "20m"},
	// the race detector's bookkeeping grows with the number of goroutines a process has ever run (about
	// 1.3 GB per minute of exploration per worker here): the thorough tier runs 112 workers of 2 minutes
	// each in eight waves instead of 14 long-lived ones, and every worker stops exploring when its resident
	// set passes 3.5 GB (reported as budget hit)
	"C12": {Level: "model_checking", Flavours: []string{"sched-race"}, Shards: 14, ThorN: 112, QuickB: "100s", ThorB: "2m"},
	"C13": {Level: "fault_enumeration", Flavours: []string{"sched"}, Shards: 14, QuickB: "100s", ThorB: "15m"},
	"C14": {Level: "model_checking", Flavours: []string{"seq"}, Shards: 14, QuickB: "100s", ThorB: "15m"},
	"C15": {Level: "exploration", Flavours: []string{"seq", "seq-purego"}, Shards: 7, Diff: true, QuickB: "100s", ThorB: "15m"},
	"C16": {Level: "model_checking", Flavours: []string{"seq"}, Shards: 14, QuickB: "100s", ThorB: "15m"},
	"C17": {Level: "exploration", Flavours: []string{"seq"}, Shards: 14, QuickB: "100s", ThorB: "15m"},
	"C18": {Level: "exploration", Flavours: []string{"seq"}, Shards: 14, QuickB: "100s", ThorB: "15m"},
	"C19": {Level: "exploration", Flavours: []string{"seq"}, Shards: 14, QuickB: "100s", ThorB: "15m"},
	"C20": {Level: "exploration", Flavours: []string{"seq"}, Shards: 14, QuickB: "100s", ThorB: "15m"},
}

func env() []string {
	e := os.Environ()
	out := e[:0:0]
	for _, kv := range e {
		if strings.HasPrefix(kv, "GOFLAGS=") || strings.HasPrefix(kv, "GOPROXY=") || strings.HasPrefix(kv, "GOSUMDB=") || strings.HasPrefix(kv, "GOTOOLCHAIN=") || strings.HasPrefix(kv, "GOMAXPROCS=") {
			continue
		}
		out = append(out, kv)
	}
	return append(out, "GOFLAGS=-mod=mod", "GOPROXY=off", "GOSUMDB=off", "GOTOOLCHAIN=local")
}

func harnessErr(format string, a ...any) {
	fmt.Fprintf(os.Stderr, "HARNESS-ERROR: "+format+"\n", a...)
	os.Exit(2)
}

func run(dir string, name string, args ...string) (string, error) {
	cmd := exec.Command(name, args...)
	cmd.Dir = dir
	cmd.Env = env()
	var buf bytes.Buffer
	cmd.Stdout = &buf
	cmd.Stderr = &buf
	err := cmd.Run()
	return buf.String(), err
}

func main() {
	if len(os.Args) < 2 {
		harnessErr("usage: vcheck setup | run <id> [--tier t] | replay <file>")
	}
	switch os.Args[1] {
	case "setup":
		setup()
	case "run":
		if len(os.Args) < 3 {
			harnessErr("run: missing property id")
		}
		tier := os.Getenv("VERIF_TIER")
		only := ""
		for i := 3; i < len(os.Args); i++ {
			switch os.Args[i] {
			case "--tier":
				i++
				tier = os.Args[i]
			case "--only":
				i++
				only = os.Args[i]
			}
		}
		if tier == "" {
			tier = "quick"
		}
		os.Exit(runCheck(os.Args[2], tier, only))
	case "replay":
		if len(os.Args) < 3 {
			harnessErr("replay: missing file")
		}
		os.Exit(replay(os.Args[2]))
	default:
		harnessErr("unknown command %q", os.Args[1])
	}
}

// ---- builds ----

func ensureVinstr() {
	if out, err := run(verifDir, "go", "build", "-o", "bin/vinstr", "./cmd/vinstr"); err != nil {
		harnessErr("building vinstr: %v\n%s", err, out)
	}
}

// genThirdParty (re)creates instrumented copies of puddle and x/sync under gen/.
func genThirdParty() {
	mod := "/root/go/pkg/mod"
	if out, err := run(verifDir, "go", "env", "GOMODCACHE"); err == nil && strings.TrimSpace(out) != "" {
		mod = strings.TrimSpace(out)
	}
	sh := fmt.Sprintf(`set -e
rm -rf gen/xsync gen/puddle
cp -r %[1]s/golang.org/x/sync@v0.13.0 gen/xsync && chmod -R u+w gen/xsync
cp -r %[1]s/github.com/jackc/puddle/v2@v2.2.2 gen/puddle && chmod -R u+w gen/puddle
rm -rf gen/puddle/.github gen/xsync/.git* gen/xsync/singleflight gen/xsync/syncmap
find gen/xsync gen/puddle -name '*_test.go' -delete
bin/vinstr -out gen/xsync/errgroup gen/xsync/errgroup/errgroup.go >/dev/null
bin/vinstr -coarse -out gen/xsync/semaphore gen/xsync/semaphore/semaphore.go >/dev/null
bin/vinstr -coarse -out gen/puddle gen/puddle/pool.go >/dev/null
`, mod)
	if out, err := run(verifDir, "bash", "-c", sh); err != nil {
		harnessErr("instrumenting third-party copies: %v\n%s", err, out)
	}
}

// genOverlay instruments the current /repo sources of ch and chpool.
func genOverlay() {
	ensureVinstr()
	os.RemoveAll(filepath.Join(verifDir, "gen/ch"))
	os.RemoveAll(filepath.Join(verifDir, "gen/chpool"))
	os.MkdirAll(filepath.Join(verifDir, "gen/ch"), 0o755)
	os.MkdirAll(filepath.Join(verifDir, "gen/chpool"), 0o755)
	repl := map[string]string{}
	for _, d := range []struct{ src, dst string }{{repoDir, "gen/ch"}, {filepath.Join(repoDir, "chpool"), "gen/chpool"}} {
		files, _ := filepath.Glob(filepath.Join(d.src, "*.go"))
		var args []string
		for _, f := range files {
			if strings.HasSuffix(f, "_test.go") {
				continue
			}
			args = append(args, f)
			repl[f] = filepath.Join(verifDir, d.dst, filepath.Base(f))
		}
		out, err := run(verifDir, "bin/vinstr", append([]string{"-out", d.dst}, args...)...)
		if err != nil {
			harnessErr("instrumenting %s: %v\n%s", d.src, err, out)
		}
	}
	b, _ := json.MarshalIndent(map[string]any{"Replace": repl}, "", " ")
	os.WriteFile(filepath.Join(verifDir, "gen/overlay.json"), b, 0o644)
}

// genCapOverlay lowers the block row cap for the C06 workers (see DESIGN C06).
func genCapOverlay() {
	ensureVinstr()
	os.MkdirAll(filepath.Join(verifDir, "gen/tmp"), 0o755)
	src := filepath.Join(repoDir, "proto/block.go")
	dst := filepath.Join(verifDir, "gen/tmp/block_cap.go")
	out, err := run(verifDir, "bin/vinstr", "-setconst", "maxRowsInBLock=65536", "-out", "gen/tmp", "-prefix", "cap_", src)
	if err != nil {
		harnessErr("row-cap overlay: %v\n%s", err, out)
	}
	os.Rename(filepath.Join(verifDir, "gen/tmp/cap_block.go"), dst)
	b, _ := json.Marshal(map[string]any{"Replace": map[string]string{src: dst}})
	os.WriteFile(filepath.Join(verifDir, "gen/overlay_cap.json"), b, 0o644)
}

var builtFlavour = map[string]bool{}

func build(fl string) string {
	bin := filepath.Join(verifDir, "bin", "w-"+fl)
	if builtFlavour[fl] {
		return bin
	}
	var out string
	var err error
	t0 := time.Now()
	switch fl {
	case "seq":
		out, err = run(verifDir, "go", goArgs("build", "-o", bin, "./cmd/seqw")...)
	case "seq-purego":
		out, err = run(verifDir, "go", goArgs("build", "-tags", "purego", "-o", bin, "./cmd/seqw")...)
	case "seqcap":
		genCapOverlay()
		out, err = run(verifDir, "go", goArgs("build", "-overlay", "gen/overlay_cap.json", "-o", bin, "./cmd/seqw")...)
	case "sched":
		genOverlay()
		out, err = run(verifDir, "go1.26", goArgs("test", "-c", "-vet=off", "-overlay", "gen/overlay.json", "-o", bin, "./checks/sched")...)
	case "sched-race":
		genOverlay()
		out, err = run(verifDir, "go1.26", goArgs("test", "-c", "-vet=off", "-race", "-overlay", "gen/overlay.json", "-o", bin, "./checks/sched")...)
	default:
		harnessErr("unknown flavour %s", fl)
	}
	if err != nil {
		harnessErr("build of %s worker failed (the tree must compile): %v\n%s", fl, err, out)
	}
	builtFlavour[fl] = true
	fmt.Fprintf(os.Stderr, "built %s worker in %.1fs\n", fl, time.Since(t0).Seconds())
	return bin
}

func setup() {
	os.MkdirAll(filepath.Join(verifDir, "bin"), 0o755)
	os.MkdirAll(filepath.Join(verifDir, "evidence"), 0o755)
	ensureVinstr()
	genThirdParty()
	var wg sync.WaitGroup
	// builds share the go build cache lock-free; run the two toolchains in parallel
	for _, group := range [][]string{{"seq", "seq-purego", "seqcap"}, {"sched", "sched-race"}} {
		wg.Add(1)
		go func(g []string) {
			defer wg.Done()
			for _, fl := range g {
				bin := filepath.Join(verifDir, "bin", "w-"+fl)
				var out string
				var err error
				switch fl {
				case "seq":
					out, err = run(verifDir, "go", goArgs("build", "-o", bin, "./cmd/seqw")...)
				case "seq-purego":
					out, err = run(verifDir, "go", goArgs("build", "-tags", "purego", "-o", bin, "./cmd/seqw")...)
				case "seqcap":
					genCapOverlay()
					out, err = run(verifDir, "go", goArgs("build", "-overlay", "gen/overlay_cap.json", "-o", bin, "./cmd/seqw")...)
				case "sched":
					genOverlay()
					out, err = run(verifDir, "go1.26", goArgs("test", "-c", "-vet=off", "-overlay", "gen/overlay.json", "-o", bin, "./checks/sched")...)
				case "sched-race":
					out, err = run(verifDir, "go1.26", goArgs("test", "-c", "-vet=off", "-race", "-overlay", "gen/overlay.json", "-o", bin, "./checks/sched")...)
				}
				if err != nil {
					harnessErr("setup: build %s: %v\n%s", fl, err, out)
				}
			}
		}(group)
	}
	wg.Wait()
	fmt.Println("setup ok")
}

// ---- known findings ----

type finding struct {
	Property string `json:"property"`
	Key      string `json:"key"`
	Status   string `json:"status"` // open | fixed
	Commit   string `json:"commit,omitempty"`
	What     string `json:"what"`
}

func loadFindings() []finding {
	b, err := os.ReadFile(filepath.Join(verifDir, "known_findings.json"))
	if err != nil {
		return nil
	}
	var fs []finding
	if err := json.Unmarshal(b, &fs); err != nil {
		harnessErr("known_findings.json: %v", err)
	}
	return fs
}

// ---- running ----

type shardOut struct {
	notReproduced bool // C06: the case the worker died on passes alone in a fresh process
	res           *vk.Result
	err           string
	crash         string // id of the case being evaluated when the worker died
	output        string
	died          bool
}

// runShardRestarting runs a shard; for C06 a worker that the library brought down is
// restarted after the fatal case (its checkpointed counts are kept), so that one crash
// does not hide the rest of the enumeration.
func runShardRestarting(bin, prop, tier, fl string, shard, n int, seed int64, budget string, only string, memKB int, gomax int) []shardOut {
	var outs []shardOut
	resume := ""
	for attempt := 0; attempt < 40; attempt++ {
		o := runShard(bin, prop, tier, fl, shard, n, seed, budget, only, memKB, gomax, resume)
		outs = append(outs, o)
		if !o.died || prop != "C06" || o.crash == "" || o.crash == resume {
			break
		}
		if only == "" {
			// A worker that dies of memory exhaustion after tens of thousands of cases may have
			// died of its own accumulated heap, not of this input: the input is the cause only
			// if a fresh process given this one case dies as well. (Shard number 1000+ keeps the
			// result files apart; -only bypasses sharding.)
			iso := runShard(bin, prop, tier, fl, 1000+shard, n, seed, budget, o.crash, memKB, gomax, "")
			if !iso.died && iso.res != nil {
				outs[len(outs)-1].notReproduced = true
				iso.res.Notes = append(iso.res.Notes, "a worker died (memory exhaustion while holding the heap of earlier cases, or its watchdog in a loaded process); its current case was re-run alone in a fresh process (same limits, watchdog 120 s) and passed, so the death is not attributed to the input; the worker was restarted after that case")
				outs = append(outs, iso)
			}
		}
		resume = o.crash
	}
	return outs
}

func runShard(bin, prop, tier, fl string, shard, n int, seed int64, budget string, only string, memKB int, gomax int, resume string) shardOut {
	work := filepath.Join(verifDir, "work")
	os.MkdirAll(work, 0o755)
	tag := fmt.Sprintf("%s-%s-%d", prop, fl, shard)
	outF := filepath.Join(work, tag+".json")
	sideF := filepath.Join(work, tag+".side")
	os.Remove(outF)
	os.Remove(sideF)
	if old, _ := filepath.Glob(filepath.Join(work, tag+".race.*")); len(old) > 0 {
		for _, f := range old {
			os.Remove(f)
		}
	}
	args := []string{"-prop", prop, "-tier", tier, "-shard", strconv.Itoa(shard), "-nshards", strconv.Itoa(n), "-seed", strconv.FormatInt(seed, 10),
		"-out", outF, "-side", sideF, "-budget", budget, "-flavour", fl}
	if only != "" {
		args = append(args, "-only", only)
	}
	if resume != "" {
		args = append(args, "-resume", resume)
	}
	if strings.HasPrefix(fl, "sched") {
		args = append([]string{"-test.run", "^TestWorker$", "-test.timeout", "0"}, args...)
	}
	var cmd *exec.Cmd
	if memKB > 0 {
		sh := fmt.Sprintf("ulimit -v %d; exec %s %s", memKB, bin, shellJoin(args))
		cmd = exec.Command("bash", "-c", sh)
	} else {
		cmd = exec.Command(bin, args...)
	}
	cmd.Dir = verifDir
	e := env()
	if gomax > 0 {
		e = append(e, "GOMAXPROCS="+strconv.Itoa(gomax))
	}
	if memKB > 0 {
		e = append(e, "GOMEMLIMIT=1GiB")
	}
	if fl == "sched" {
		// GOGC=400 is the fast setting while the heap is small; the memory limit makes the
		// collector work harder before 14 workers with large memo tables exhaust the machine
		e = append(e, "GOGC=400", "GOMEMLIMIT=2500MiB")
	}
	if fl == "sched-race" {
		e = append(e, "GOMEMLIMIT=1200MiB", "VERIF_RSS_LIMIT_MB=3500")
	}
	if fl == "sched-race" {
		e = append(e, "GORACE=halt_on_error=0 log_path="+filepath.Join(work, tag+".race"))
	}
	cmd.Env = e
	var buf bytes.Buffer
	cmd.Stdout = &buf
	cmd.Stderr = &buf
	err := cmd.Run()
	so := shardOut{output: headTail(buf.String(), 4000, 4000)}
	b, rerr := os.ReadFile(outF)
	if rerr == nil {
		var r vk.Result
		if jerr := json.Unmarshal(b, &r); jerr == nil {
			so.res = &r
		} else {
			so.err = "bad result json: " + jerr.Error()
		}
	}
	if so.res == nil || (err != nil && !strings.HasPrefix(fl, "sched")) {
		so.died = true
		if sb, e2 := os.ReadFile(sideF); e2 == nil {
			so.crash = string(sb)
		}
		if so.err == "" {
			so.err = fmt.Sprint("worker exited: ", err)
		}
	}
	os.Remove(outF)
	os.Remove(sideF)
	return so
}

func shellJoin(a []string) string {
	var q []string
	for _, s := range a {
		q = append(q, "'"+strings.ReplaceAll(s, "'", `'\''`)+"'")
	}
	return strings.Join(q, " ")
}

func headTail(s string, h, t int) string {
	if len(s) <= h+t {
		return s
	}
	return s[:h] + "\n…\n" + s[len(s)-t:]
}

func tail(s string, n int) string {
	if len(s) > n {
		return "…" + s[len(s)-n:]
	}
	return s
}

func runCheck(prop, tier, only string) int {
	sp, ok := specs[prop]
	if !ok {
		harnessErr("unknown property %s", prop)
	}
	t0 := time.Now()
	seed := int64(0)
	if s := os.Getenv("VERIF_SEED"); s != "" {
		seed, _ = strconv.ParseInt(s, 10, 64)
	}
	budget := sp.QuickB
	if tier == "thorough" {
		budget = sp.ThorB
	}
	if b := os.Getenv("VERIF_BUDGET"); b != "" {
		budget = b
	}
	os.MkdirAll(filepath.Join(verifDir, "bin"), 0o755)
	os.MkdirAll(filepath.Join(verifDir, "evidence"), 0o755)
	if _, err := os.Stat(filepath.Join(verifDir, "gen/puddle/pool.go")); err != nil {
		ensureVinstr()
		genThirdParty()
	}

	type job struct {
		fl    string
		shard int
	}
	var jobs []job
	bins := map[string]string{}
	for _, fl := range sp.Flavours {
		bins[fl] = build(fl)
		ns := sp.Shards
		if tier == "thorough" && sp.ThorN > 0 {
			ns = sp.ThorN
		}
		if only != "" {
			ns = 1
		}
		for s := 0; s < ns; s++ {
			jobs = append(jobs, job{fl, s})
		}
	}
	outLists := make([][]shardOut, len(jobs))
	sem := make(chan struct{}, 15)
	var wg sync.WaitGroup
	gomax := 0
	if strings.HasPrefix(sp.Flavours[0], "sched") {
		gomax = 1
	}
	for i, j := range jobs {
		wg.Add(1)
		go func(i int, j job) {
			defer wg.Done()
			sem <- struct{}{}
			defer func() { <-sem }()
			ns := sp.Shards
			if tier == "thorough" && sp.ThorN > 0 {
				ns = sp.ThorN
			}
			if only != "" {
				ns = 1
			}
			outLists[i] = runShardRestarting(bins[j.fl], prop, tier, j.fl, j.shard, ns, seed, budget, only, sp.MemKB, gomax)
		}(i, j)
	}
	wg.Wait()
	var outs []shardOut
	var outJobs []job
	for i, l := range outLists {
		for _, o := range l {
			outs = append(outs, o)
			outJobs = append(outJobs, jobs[i])
		}
	}

	// aggregate
	agg := vk.Result{Property: prop, Tier: tier, Exhaustive: true, ViolCount: map[string]int64{}, Groups: map[string]int64{}, Outcomes: map[string]int64{}}
	transcripts := map[string]map[string]string{}
	var harnessProblems []string
	for i, o := range outs {
		j := outJobs[i]
		if o.died && o.crash != "" && prop == "C06" && !o.notReproduced {
			// a dying worker is the C06 violation itself: attribute it to the current case
			key := "C06/process-abort/" + crashKey(o.crash, o.output)
			agg.ViolCount[key]++
			if agg.ViolCount[key] <= 3 {
				agg.Violations = append(agg.Violations, vk.Violation{Key: key, Case: o.crash, Detail: "worker process died while decoding this input: " + headTail(o.output, 600, 300)})
			}
		}
		if o.res == nil {
			if o.crash != "" && prop == "C06" {
				continue
			}
			if false {
				// a dying worker is the C06 violation itself: attribute it to the current case
				agg.ViolCount["C06/process-abort"]++
				agg.Violations = append(agg.Violations, vk.Violation{Key: "C06/process-abort/" + crashKey(o.crash, o.output), Case: o.crash, Detail: "worker process died while decoding this input: " + tail(o.output, 800)})
				agg.Exhaustive = false
				continue
			}
			if o.crash != "" && strings.Contains(o.output, "github.com/ClickHouse/ch-go") && (strings.Contains(o.output, "fatal error:") || strings.Contains(o.output, "panic:")) && !strings.Contains(o.output, "HARNESS-ERROR") {
				// the library brought the worker process down while running this case
				kind := "panic"
				if strings.Contains(o.output, "fatal error:") {
					kind = "fatal-error"
				}
				key := prop + "/process-crash/" + kind
				agg.ViolCount[key]++
				agg.Violations = append(agg.Violations, vk.Violation{Key: key, Case: o.crash, Detail: "the worker process died inside library code while running this case:\n" + headTail(o.output, 1500, 500)})
				agg.Exhaustive = false
				continue
			}
			harnessProblems = append(harnessProblems, fmt.Sprintf("%s shard %d: %s (case %q)\n%s", j.fl, j.shard, o.err, o.crash, o.output))
			continue
		}
		r := o.res
		agg.Evaluations += r.Evaluations
		agg.Distinct += r.Distinct
		agg.States += r.States
		agg.Transitions += r.Transitions
		agg.Traces += r.Traces
		if !r.Exhaustive {
			agg.Exhaustive = false
		}
		if r.BudgetHit {
			agg.BudgetHit = true
		}
		if i == 0 || r.Bound < agg.Bound {
			agg.Bound = r.Bound
		}
		if r.Rule != "" && !strings.Contains(agg.Rule, r.Rule) {
			if agg.Rule != "" {
				agg.Rule += " || "
			}
			agg.Rule += r.Rule
		}
		for k, v := range r.Groups {
			agg.Groups[k] += v
		}
		for k, v := range r.Outcomes {
			agg.Outcomes[k] += v
		}
		for k, v := range r.ViolCount {
			agg.ViolCount[k] += v
		}
		agg.Violations = append(agg.Violations, r.Violations...)
		if len(agg.Samples) < 5 && len(r.Samples) > 0 {
			agg.Samples = append(agg.Samples, r.Samples[0])
		}
		for _, n := range r.Notes {
			if len(agg.Notes) < 30 && !contains(agg.Notes, n) {
				agg.Notes = append(agg.Notes, n)
			}
		}
		if sp.Diff {
			m := transcripts[j.fl]
			if m == nil {
				m = map[string]string{}
				transcripts[j.fl] = m
			}
			for k, v := range r.Transcript {
				m[k] = v
			}
		}
		if o.output != "" && os.Getenv("VERIF_VERBOSE") != "" {
			fmt.Fprintf(os.Stderr, "[%s/%d] %s\n", j.fl, j.shard, o.output)
		}
	}
	if len(harnessProblems) > 0 {
		for _, h := range harnessProblems {
			fmt.Fprintln(os.Stderr, h)
		}
		harnessErr("%d worker(s) failed; no verdict", len(harnessProblems))
	}
	if sp.Diff && only == "" {
		a, b := transcripts[sp.Flavours[0]], transcripts[sp.Flavours[1]]
		keys := map[string]bool{}
		for k := range a {
			keys[k] = true
		}
		for k := range b {
			keys[k] = true
		}
		ks := make([]string, 0, len(keys))
		for k := range keys {
			ks = append(ks, k)
		}
		sort.Strings(ks)
		for _, k := range ks {
			if a[k] != b[k] {
				// transcript keys are "<finding-key>|<case>"
				fk, cs, _ := strings.Cut(k, "|")
				key := prop + "/build-diff/" + fk
				agg.ViolCount[key]++
				if agg.ViolCount[key] <= 3 {
					agg.Violations = append(agg.Violations, vk.Violation{Key: key, Case: cs, Detail: fmt.Sprintf("%s=%q %s=%q", sp.Flavours[0], a[k], sp.Flavours[1], b[k])})
				}
			}
		}
		agg.Groups["transcript-lines-compared"] = int64(len(ks))
	}

	// known findings
	fs := loadFindings()
	open := map[string]finding{}
	for _, f := range fs {
		if f.Property == prop && f.Status == "open" {
			open[f.Key] = f
		}
	}
	knownSeen := map[string]int64{}
	var real []vk.Violation
	for _, v := range agg.Violations {
		if _, ok := open[v.Key]; ok {
			continue
		}
		real = append(real, v)
	}
	for k, n := range agg.ViolCount {
		if _, ok := open[k]; ok {
			knownSeen[k] = n
		}
	}
	for _, k := range vk.SortedKeys(knownSeen) {
		fmt.Printf("KNOWN-FINDING: property=%s %s — %s (%d cases)\n", prop, k, open[k].What, knownSeen[k])
	}
	exit := 0
	nviol := 0
	seenKey := map[string]bool{}
	for _, v := range real {
		nviol++
		if seenKey[v.Key] {
			continue
		}
		seenKey[v.Key] = true
		path := writeReplay(prop, tier, v)
		fmt.Printf("VIOLATION property=%s replay=%s\n", prop, path)
		fmt.Printf("  key=%s case=%s\n  %s\n", v.Key, v.Case, v.Detail)
		exit = 1
	}
	unknownTotal := int64(0)
	for k, n := range agg.ViolCount {
		if _, ok := open[k]; !ok {
			unknownTotal += n
		}
	}

	// evidence
	if only == "" {
		cov := map[string]any{
			"evaluations":         agg.Evaluations,
			"distinct_nontrivial": agg.Distinct,
			"rule":                agg.Rule,
			"samples":             agg.Samples,
			"exhaustive":          agg.Exhaustive && !agg.BudgetHit,
			"budget_hit":          agg.BudgetHit,
			"groups":              agg.Groups,
			"shards":              len(jobs),
			"flavours":            sp.Flavours,
			"known_findings_seen": knownSeen,
			"notes":               agg.Notes,
		}
		if len(agg.Outcomes) > 0 {
			cov["distinct_outcomes"] = len(agg.Outcomes)
			if len(agg.Outcomes) <= 40 {
				cov["outcomes"] = agg.Outcomes
			}
		}
		if sp.Level == "model_checking" {
			cov["states"] = agg.States
			cov["transitions"] = agg.Transitions
			cov["traces_validated_against_impl"] = agg.Traces
			cov["bound_completed"] = agg.Bound
		}
		if agg.Samples == nil {
			cov["samples"] = []any{}
		}
		ev := map[string]any{
			"property_id": prop,
			"tier":        tier,
			"seed":        seed,
			"level":       sp.Level,
			"coverage":    cov,
			"assumptions": assumptions(prop),
			"wall_s":      time.Since(t0).Seconds(),
			"violations":  unknownTotal,
		}
		b, _ := json.MarshalIndent(ev, "", " ")
		if err := os.WriteFile(filepath.Join(verifDir, "evidence", prop+".json"), b, 0o644); err != nil {
			harnessErr("writing evidence: %v", err)
		}
	}
	fmt.Printf("%s %s: evaluations=%d distinct=%d states=%d transitions=%d traces=%d exhaustive=%v violations=%d known=%d wall=%.1fs\n",
		prop, tier, agg.Evaluations, agg.Distinct, agg.States, agg.Transitions, agg.Traces, agg.Exhaustive && !agg.BudgetHit, unknownTotal, len(knownSeen), time.Since(t0).Seconds())
	if only != "" {
		for _, o := range outs {
			if o.output != "" {
				fmt.Println(o.output)
			}
		}
	}
	_ = nviol
	return exit
}

func contains(a []string, s string) bool {
	for _, x := range a {
		if x == s {
			return true
		}
	}
	return false
}

func crashKey(caseID, output string) string {
	kind := "died"
	switch {
	case strings.Contains(output, "out of memory"), strings.Contains(output, "cannot allocate"):
		kind = "out-of-memory"
	case strings.Contains(output, "stack overflow"), strings.Contains(output, "stack exceeds"):
		kind = "stack-overflow"
	}
	// case ids are "<corpus item>/<mutation class>/..." — keep the first two components
	parts := strings.SplitN(caseID, "/", 3)
	if len(parts) >= 2 {
		return kind + "/" + parts[0] + "/" + parts[1]
	}
	return kind
}

func writeReplay(prop, tier string, v vk.Violation) string {
	dir := filepath.Join(verifDir, "replays", prop)
	os.MkdirAll(dir, 0o755)
	body := map[string]any{"property": prop, "tier": tier, "finding_key": v.Key, "case": v.Case, "detail": v.Detail, "extra": v.Extra}
	b, _ := json.MarshalIndent(body, "", " ")
	h := sha1.Sum([]byte(v.Key + "|" + v.Case))
	path := filepath.Join(dir, fmt.Sprintf("%x.json", h[:6]))
	os.WriteFile(path, b, 0o644)
	return path
}

func replay(path string) int {
	b, err := os.ReadFile(path)
	if err != nil {
		harnessErr("%v", err)
	}
	var body struct {
		Property string `json:"property"`
		Tier     string `json:"tier"`
		Case     string `json:"case"`
	}
	if err := json.Unmarshal(b, &body); err != nil {
		harnessErr("%v", err)
	}
	return runCheck(body.Property, body.Tier, body.Case)
}
