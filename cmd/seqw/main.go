// Command seqw is the worker binary of the sequential checks (built with the default
// toolchain; also with -tags purego and with the row-cap overlay).
package main

import (
	"verif/checks/seq"
	"verif/vk"
)

func main() { vk.Main(seq.Checks) }
