package refwire

import (
	"encoding/binary"
	"errors"
	"fmt"

	"github.com/go-faster/city"
	"github.com/klauspost/compress/zstd"
	"github.com/pierrec/lz4/v4"
)

// Compressed-frame layout: 16-byte CityHash128 (ClickHouse variant) of everything after
// it, then method byte, u32 compressed size (including this 9-byte header), u32
// uncompressed size, then the compressed data. The hash and the LZ4/ZSTD codecs are
// third-party (trusted base, the same libraries the client uses).
const (
	MethodNone = 0x02
	MethodLZ4  = 0x82
	MethodZSTD = 0x90
	FrameHead  = 16 + 9
	MaxFrame   = 128 << 20
)

func Checksum(b []byte) [16]byte {
	h := city.CH128(b)
	var out [16]byte
	binary.LittleEndian.PutUint64(out[:8], h.Low)
	binary.LittleEndian.PutUint64(out[8:], h.High)
	return out
}

// MakeFrame builds a frame around already-compressed data.
func MakeFrame(method byte, compressed []byte, rawLen int) []byte {
	f := make([]byte, FrameHead, FrameHead+len(compressed))
	f[16] = method
	binary.LittleEndian.PutUint32(f[17:], uint32(len(compressed)+9))
	binary.LittleEndian.PutUint32(f[21:], uint32(rawLen))
	f = append(f, compressed...)
	h := Checksum(f[16:])
	copy(f, h[:])
	return f
}

var zenc, _ = zstd.NewWriter(nil, zstd.WithEncoderConcurrency(1))
var zdec, _ = zstd.NewReader(nil, zstd.WithDecoderConcurrency(1))

func init() {
	// Warm both codecs outside any synctest bubble: their lazily created internal channels
	// must not belong to the bubble of whichever execution happens to use them first.
	b := zenc.EncodeAll([]byte("warm-up"), nil)
	if _, err := zdec.DecodeAll(b, nil); err != nil {
		panic(err)
	}
}

// Compress builds a frame holding payload with the given method.
func Compress(method byte, payload []byte) []byte {
	switch method {
	case MethodNone:
		return MakeFrame(method, payload, len(payload))
	case MethodLZ4:
		buf := make([]byte, lz4.CompressBlockBound(len(payload)))
		var c lz4.Compressor
		n, err := c.CompressBlock(payload, buf)
		if err != nil {
			panic(err)
		}
		if n == 0 && len(payload) > 0 {
			// incompressible: emit a literal-only LZ4 block by hand
			buf = lz4Literals(payload)
			n = len(buf)
		}
		return MakeFrame(method, buf[:n], len(payload))
	case MethodZSTD:
		return MakeFrame(method, zenc.EncodeAll(payload, nil), len(payload))
	}
	panic("refwire: unknown method")
}

// lz4Literals encodes payload as a single literal run (valid LZ4 block).
func lz4Literals(p []byte) []byte {
	var out []byte
	n := len(p)
	if n < 15 {
		out = append(out, byte(n<<4))
	} else {
		out = append(out, 0xF0)
		rest := n - 15
		for rest >= 255 {
			out = append(out, 255)
			rest -= 255
		}
		out = append(out, byte(rest))
	}
	return append(out, p...)
}

// Frame is a parsed frame header.
type Frame struct {
	Method     byte
	RawSize    int // compressed data size (without the 9-byte header)
	DataSize   int
	Total      int // bytes the frame occupies
	ChecksumOK bool
	Body       []byte
}

var ErrFrameShort = errors.New("refwire: short frame")

// ParseFrame reads one frame from the start of b.
func ParseFrame(b []byte) (Frame, error) {
	var f Frame
	if len(b) < FrameHead {
		return f, ErrFrameShort
	}
	f.Method = b[16]
	f.RawSize = int(binary.LittleEndian.Uint32(b[17:])) - 9
	f.DataSize = int(binary.LittleEndian.Uint32(b[21:]))
	if f.RawSize < 0 || f.RawSize > MaxFrame || f.DataSize < 0 || f.DataSize > MaxFrame {
		return f, fmt.Errorf("refwire: frame sizes %d/%d out of range", f.RawSize, f.DataSize)
	}
	f.Total = FrameHead + f.RawSize
	if len(b) < f.Total {
		return f, ErrFrameShort
	}
	f.Body = b[FrameHead:f.Total]
	h := Checksum(b[16:f.Total])
	f.ChecksumOK = string(h[:]) == string(b[:16])
	return f, nil
}

// Decompress returns the payload of a parsed frame.
func (f Frame) Decompress() ([]byte, error) {
	if !f.ChecksumOK {
		return nil, errors.New("refwire: checksum mismatch")
	}
	switch f.Method {
	case MethodNone:
		if len(f.Body) != f.DataSize {
			return nil, errors.New("refwire: size mismatch")
		}
		return append([]byte{}, f.Body...), nil
	case MethodLZ4:
		out := make([]byte, f.DataSize)
		n, err := lz4.UncompressBlock(f.Body, out)
		if err != nil {
			return nil, err
		}
		if n != f.DataSize {
			return nil, errors.New("refwire: size mismatch")
		}
		return out, nil
	case MethodZSTD:
		out, err := zdec.DecodeAll(f.Body, nil)
		if err != nil {
			return nil, err
		}
		if len(out) != f.DataSize {
			return nil, errors.New("refwire: size mismatch")
		}
		return out, nil
	}
	return nil, fmt.Errorf("refwire: method %#x", f.Method)
}
