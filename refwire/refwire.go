// Package refwire is an independent reference model of the ClickHouse native protocol's
// message layer, written from the protocol description (ProtocolDefines.h revision
// numbers, packet layouts) and NOT calling the library's proto or compress packages. It is
// the oracle for "what must be on the wire" and the generator of well-formed peer streams.
package refwire

import (
	"encoding/binary"
	"errors"
	"fmt"
	"math"
)

// Revision thresholds (src/Core/ProtocolDefines.h).
const (
	RevTempTables          = 50264
	RevBlockInfo           = 51903
	RevTimezone            = 54058
	RevQuotaKeyInClient    = 54060
	RevDisplayName         = 54372
	RevVersionPatch        = 54401
	RevServerLogs          = 54406
	RevColumnDefaults      = 54410
	RevClientWriteInfo     = 54420
	RevSettingsAsStrings   = 54429
	RevInterServerSecret   = 54441
	RevOpenTelemetry       = 54442
	RevXForwardedFor       = 54443
	RevReferer             = 54447
	RevDistributedDepth    = 54448
	RevQueryStartTime      = 54449
	RevProfileEvents       = 54451
	RevParallelReplicas    = 54453
	RevCustomSerialization = 54454
	RevQuotaKey            = 54458
	RevAddendum            = 54458
	RevParameters          = 54459
	RevServerQueryTime     = 54460
)

// Thresholds lists every distinct feature revision the library compares against.
var Thresholds = []int{50264, 51903, 54058, 54060, 54372, 54401, 54406, 54410, 54420, 54429, 54441, 54442, 54443, 54447, 54448, 54449, 54451, 54453, 54454, 54458, 54459, 54460, 54475}

// RevSet returns one representative of every interval between consecutive thresholds plus
// both neighbours of every threshold, within [lo, hi].
func RevSet(lo, hi int) []int {
	seen := map[int]bool{}
	var out []int
	add := func(r int) {
		if r >= lo && r <= hi && !seen[r] {
			seen[r] = true
			out = append(out, r)
		}
	}
	add(lo)
	for i, t := range Thresholds {
		add(t - 1)
		add(t)
		add(t + 1)
		if i+1 < len(Thresholds) {
			add((t + Thresholds[i+1]) / 2)
		}
	}
	add(hi)
	// ascending
	for i := range out {
		for j := i + 1; j < len(out); j++ {
			if out[j] < out[i] {
				out[i], out[j] = out[j], out[i]
			}
		}
	}
	return out
}

// Client packet codes.
const (
	ClientHelloCode  = 0
	ClientQueryCode  = 1
	ClientDataCode   = 2
	ClientCancelCode = 3
	ClientPingCode   = 4
)

// Server packet codes.
const (
	ServerHelloCode         = 0
	ServerDataCode          = 1
	ServerExceptionCode     = 2
	ServerProgressCode      = 3
	ServerPongCode          = 4
	ServerEndOfStreamCode   = 5
	ServerProfileCode       = 6
	ServerTotalsCode        = 7
	ServerExtremesCode      = 8
	ServerTablesStatusCode  = 9
	ServerLogCode           = 10
	ServerTableColumnsCode  = 11
	ServerPartUUIDsCode     = 12
	ServerReadTaskCode      = 13
	ServerProfileEventsCode = 14
)

// ---- primitive writer ----

type W struct{ B []byte }

func (w *W) Byte(b byte) { w.B = append(w.B, b) }
func (w *W) Bool(v bool) {
	if v {
		w.Byte(1)
	} else {
		w.Byte(0)
	}
}
func (w *W) UVarint(v uint64) {
	for v >= 0x80 {
		w.B = append(w.B, byte(v)|0x80)
		v >>= 7
	}
	w.B = append(w.B, byte(v))
}
func (w *W) Int(v int)         { w.UVarint(uint64(v)) }
func (w *W) Str(s string)      { w.UVarint(uint64(len(s))); w.B = append(w.B, s...) }
func (w *W) Raw(b []byte)      { w.B = append(w.B, b...) }
func (w *W) U16(v uint16)      { w.B = binary.LittleEndian.AppendUint16(w.B, v) }
func (w *W) U32(v uint32)      { w.B = binary.LittleEndian.AppendUint32(w.B, v) }
func (w *W) U64(v uint64)      { w.B = binary.LittleEndian.AppendUint64(w.B, v) }
func (w *W) I32(v int32)       { w.U32(uint32(v)) }
func (w *W) I64(v int64)       { w.U64(uint64(v)) }
func (w *W) F64(v float64)     { w.U64(math.Float64bits(v)) }
func (w *W) F32(v float32)     { w.U32(math.Float32bits(v)) }
func (w *W) Len() int          { return len(w.B) }
func (w *W) Bytes() []byte     { return w.B }
func UVarintLen(v uint64) int  { n := 1; for v >= 0x80 { v >>= 7; n++ }; return n }

// ---- primitive reader ----

var ErrShort = errors.New("refwire: short input")

type R struct {
	B   []byte
	Pos int
	Err error
}

func NewR(b []byte) *R { return &R{B: b} }

func (r *R) fail(e error) {
	if r.Err == nil {
		r.Err = e
	}
}
func (r *R) Left() int { return len(r.B) - r.Pos }
func (r *R) Byte() byte {
	if r.Err != nil {
		return 0
	}
	if r.Pos >= len(r.B) {
		r.fail(ErrShort)
		return 0
	}
	b := r.B[r.Pos]
	r.Pos++
	return b
}
func (r *R) Bool() bool {
	b := r.Byte()
	if b > 1 {
		r.fail(fmt.Errorf("refwire: bool byte %d", b))
	}
	return b == 1
}
func (r *R) UVarint() uint64 {
	var v uint64
	for shift := uint(0); ; shift += 7 {
		if shift > 63 {
			r.fail(errors.New("refwire: varint too long"))
			return 0
		}
		b := r.Byte()
		if r.Err != nil {
			return 0
		}
		v |= uint64(b&0x7f) << shift
		if b < 0x80 {
			return v
		}
	}
}
func (r *R) Int() int { return int(r.UVarint()) }
func (r *R) Raw(n int) []byte {
	if r.Err != nil {
		return nil
	}
	if n < 0 || r.Left() < n {
		r.fail(ErrShort)
		return nil
	}
	b := r.B[r.Pos : r.Pos+n]
	r.Pos += n
	return b
}
func (r *R) Str() string {
	n := r.UVarint()
	if r.Err != nil {
		return ""
	}
	if n > uint64(r.Left()) {
		r.fail(ErrShort)
		return ""
	}
	return string(r.Raw(int(n)))
}
func (r *R) U16() uint16 {
	b := r.Raw(2)
	if b == nil {
		return 0
	}
	return binary.LittleEndian.Uint16(b)
}
func (r *R) U32() uint32 {
	b := r.Raw(4)
	if b == nil {
		return 0
	}
	return binary.LittleEndian.Uint32(b)
}
func (r *R) U64() uint64 {
	b := r.Raw(8)
	if b == nil {
		return 0
	}
	return binary.LittleEndian.Uint64(b)
}
func (r *R) I32() int32 { return int32(r.U32()) }
func (r *R) I64() int64 { return int64(r.U64()) }

// ---- messages ----

type ClientHello struct {
	Name                   string
	Major, Minor, Revision int
	Database, User, Pass   string
}

func (h ClientHello) Encode(w *W) {
	w.UVarint(ClientHelloCode)
	w.Str(h.Name)
	w.Int(h.Major)
	w.Int(h.Minor)
	w.Int(h.Revision)
	w.Str(h.Database)
	w.Str(h.User)
	w.Str(h.Pass)
}

// DecodeClientHello parses a client hello including its packet code.
func DecodeClientHello(r *R) (h ClientHello) {
	if c := r.UVarint(); c != ClientHelloCode && r.Err == nil {
		r.fail(fmt.Errorf("refwire: packet %d is not a client hello", c))
	}
	h.Name = r.Str()
	h.Major = r.Int()
	h.Minor = r.Int()
	h.Revision = r.Int()
	h.Database = r.Str()
	h.User = r.Str()
	h.Pass = r.Str()
	return
}

type ServerHello struct {
	Name                   string
	Major, Minor, Revision int
	Timezone, DisplayName  string
	Patch                  int
}

// Encode writes the hello as a server of revision h.Revision writes it to a client that
// announced clientRev: a field exists iff both sides know it (min of the revisions).
func (h ServerHello) Encode(w *W, clientRev int) {
	rev := min(h.Revision, clientRev)
	w.UVarint(ServerHelloCode)
	h.EncodeBody(w, rev)
}

// EncodeBody writes the hello body with the fields defined at revision rev.
func (h ServerHello) EncodeBody(w *W, rev int) {
	w.Str(h.Name)
	w.Int(h.Major)
	w.Int(h.Minor)
	w.Int(h.Revision)
	if rev >= RevTimezone {
		w.Str(h.Timezone)
	}
	if rev >= RevDisplayName {
		w.Str(h.DisplayName)
	}
	if rev >= RevVersionPatch {
		w.Int(h.Patch)
	}
}

func DecodeServerHelloBody(r *R, rev int) (h ServerHello) {
	h.Name = r.Str()
	h.Major = r.Int()
	h.Minor = r.Int()
	h.Revision = r.Int()
	if rev >= RevTimezone {
		h.Timezone = r.Str()
	}
	if rev >= RevDisplayName {
		h.DisplayName = r.Str()
	}
	if rev >= RevVersionPatch {
		h.Patch = r.Int()
	}
	return
}

type Setting struct {
	Key, Value                  string
	Important, Custom, Obsolete bool
}

func (s Setting) Encode(w *W) {
	w.Str(s.Key)
	var f uint64
	if s.Important {
		f |= 1
	}
	if s.Custom {
		f |= 2
	}
	if s.Obsolete {
		f |= 4
	}
	w.UVarint(f)
	w.Str(s.Value)
}

type Span struct {
	Valid      bool
	TraceID    [16]byte
	SpanID     [8]byte
	TraceState string
	Flags      byte
}

type ClientInfo struct {
	QueryKind        byte
	InitialUser      string
	InitialQueryID   string
	InitialAddress   string
	InitialTime      int64
	Interface        byte
	OSUser           string
	Hostname         string
	ClientName       string
	Major, Minor     int
	Revision         int
	QuotaKey         string
	DistributedDepth int
	Patch            int
	Span             Span
	Collaborate      bool
	CountReplicas    int
	ReplicaNumber    int
}

func rev8(b []byte) []byte {
	out := make([]byte, len(b))
	for i := 0; i+8 <= len(b); i += 8 {
		for j := 0; j < 8; j++ {
			out[i+j] = b[i+7-j]
		}
	}
	return out
}

func (c ClientInfo) Encode(w *W, rev int) {
	w.Byte(c.QueryKind)
	w.Str(c.InitialUser)
	w.Str(c.InitialQueryID)
	w.Str(c.InitialAddress)
	if rev >= RevQueryStartTime {
		w.I64(c.InitialTime)
	}
	w.Byte(c.Interface)
	w.Str(c.OSUser)
	w.Str(c.Hostname)
	w.Str(c.ClientName)
	w.Int(c.Major)
	w.Int(c.Minor)
	w.Int(c.Revision)
	if rev >= RevQuotaKeyInClient {
		w.Str(c.QuotaKey)
	}
	if rev >= RevDistributedDepth {
		w.Int(c.DistributedDepth)
	}
	if rev >= RevVersionPatch && c.Interface == 1 {
		w.Int(c.Patch)
	}
	if rev >= RevOpenTelemetry {
		if c.Span.Valid {
			w.Byte(1)
			// the server reads trace id and span id as host-order 64-bit words
			w.Raw(rev8(c.Span.TraceID[:]))
			w.Raw(rev8(c.Span.SpanID[:]))
			w.Str(c.Span.TraceState)
			w.Byte(c.Span.Flags)
		} else {
			w.Byte(0)
		}
	}
	if rev >= RevParallelReplicas {
		if c.Collaborate {
			w.Int(1)
		} else {
			w.Int(0)
		}
		w.Int(c.CountReplicas)
		w.Int(c.ReplicaNumber)
	}
}

func DecodeClientInfo(r *R, rev int) (c ClientInfo) {
	c.QueryKind = r.Byte()
	c.InitialUser = r.Str()
	c.InitialQueryID = r.Str()
	c.InitialAddress = r.Str()
	if rev >= RevQueryStartTime {
		c.InitialTime = r.I64()
	}
	c.Interface = r.Byte()
	c.OSUser = r.Str()
	c.Hostname = r.Str()
	c.ClientName = r.Str()
	c.Major = r.Int()
	c.Minor = r.Int()
	c.Revision = r.Int()
	if rev >= RevQuotaKeyInClient {
		c.QuotaKey = r.Str()
	}
	if rev >= RevDistributedDepth {
		c.DistributedDepth = r.Int()
	}
	if rev >= RevVersionPatch && c.Interface == 1 {
		c.Patch = r.Int()
	}
	if rev >= RevOpenTelemetry {
		if r.Bool() {
			c.Span.Valid = true
			copy(c.Span.TraceID[:], rev8(r.Raw(16)))
			copy(c.Span.SpanID[:], rev8(r.Raw(8)))
			c.Span.TraceState = r.Str()
			c.Span.Flags = r.Byte()
		}
	}
	if rev >= RevParallelReplicas {
		c.Collaborate = r.Int() == 1
		c.CountReplicas = r.Int()
		c.ReplicaNumber = r.Int()
	}
	return
}

type Query struct {
	ID          string
	Info        ClientInfo
	Settings    []Setting
	Secret      string
	Stage       uint64
	Compression uint64
	Body        string
	Params      []Setting // parameters travel as custom settings
}

// Encode writes a Query packet (with code) at revision rev. Below RevSettingsAsStrings
// settings used a binary format this model (like the library) does not produce: none sent.
func (q Query) Encode(w *W, rev int) {
	w.UVarint(ClientQueryCode)
	w.Str(q.ID)
	if rev >= RevClientWriteInfo {
		q.Info.Encode(w, rev)
	}
	if rev >= RevSettingsAsStrings {
		for _, s := range q.Settings {
			s.Encode(w)
		}
	}
	w.Str("")
	if rev >= RevInterServerSecret {
		w.Str(q.Secret)
	}
	w.UVarint(q.Stage)
	w.UVarint(q.Compression)
	w.Str(q.Body)
	if rev >= RevParameters {
		for _, p := range q.Params {
			p.Custom = true
			p.Encode(w)
		}
		w.Str("")
	}
}

func decodeSettings(r *R) (out []Setting) {
	for r.Err == nil {
		k := r.Str()
		if k == "" {
			return
		}
		f := r.UVarint()
		v := r.Str()
		out = append(out, Setting{Key: k, Value: v, Important: f&1 != 0, Custom: f&2 != 0, Obsolete: f&4 != 0})
	}
	return
}

// DecodeQueryBody parses a Query packet after its code.
func DecodeQueryBody(r *R, rev int) (q Query) {
	q.ID = r.Str()
	if rev >= RevClientWriteInfo {
		q.Info = DecodeClientInfo(r, rev)
	}
	if rev >= RevSettingsAsStrings {
		q.Settings = decodeSettings(r)
	} else if s := r.Str(); s != "" && r.Err == nil {
		r.fail(errors.New("refwire: legacy binary settings not modelled"))
	}
	if rev >= RevInterServerSecret {
		q.Secret = r.Str()
	}
	q.Stage = r.UVarint()
	q.Compression = r.UVarint()
	q.Body = r.Str()
	if rev >= RevParameters {
		q.Params = decodeSettings(r)
	}
	return
}

type BlockInfo struct {
	Overflows bool
	BucketNum int32
}

func (i BlockInfo) Encode(w *W) {
	w.UVarint(1)
	w.Bool(i.Overflows)
	w.UVarint(2)
	w.I32(i.BucketNum)
	w.UVarint(0)
}

func DecodeBlockInfo(r *R) (i BlockInfo) {
	for r.Err == nil {
		switch f := r.UVarint(); f {
		case 0:
			return
		case 1:
			i.Overflows = r.Bool()
		case 2:
			i.BucketNum = r.I32()
		default:
			r.fail(fmt.Errorf("refwire: block info field %d", f))
		}
	}
	return
}

// Column is one column of a block as it appears on the wire: name, type string and the
// already-encoded column body (state prefix + data); refcol produces / parses Body.
type Column struct {
	Name, Type string
	Body       []byte
}

type Block struct {
	Info    BlockInfo
	Rows    int
	Columns []Column
}

// EncodeBody writes block info (if the revision has it), counts and columns.
func (b Block) EncodeBody(w *W, rev int) {
	if rev >= RevBlockInfo {
		b.Info.Encode(w)
	}
	w.Int(len(b.Columns))
	w.Int(b.Rows)
	for _, c := range b.Columns {
		w.Str(c.Name)
		w.Str(c.Type)
		if rev >= RevCustomSerialization {
			w.Bool(false)
		}
		w.Raw(c.Body)
	}
}

type Exception struct {
	Code                 int32
	Name, Message, Stack string
}

// EncodeExceptionChain writes an Exception packet (with code) holding the chain.
func EncodeExceptionChain(w *W, chain []Exception) {
	w.UVarint(ServerExceptionCode)
	for i, e := range chain {
		w.I32(e.Code)
		w.Str(e.Name)
		w.Str(e.Message)
		w.Str(e.Stack)
		w.Bool(i+1 < len(chain))
	}
}

type Progress struct {
	Rows, Bytes, TotalRows, WroteRows, WroteBytes, ElapsedNs uint64
}

func (p Progress) EncodeBody(w *W, rev int) {
	w.UVarint(p.Rows)
	w.UVarint(p.Bytes)
	w.UVarint(p.TotalRows)
	if rev >= RevClientWriteInfo {
		w.UVarint(p.WroteRows)
		w.UVarint(p.WroteBytes)
	}
	if rev >= RevServerQueryTime {
		w.UVarint(p.ElapsedNs)
	}
}

// Norm returns the progress as a receiver at revision rev can know it.
func (p Progress) Norm(rev int) Progress {
	if rev < RevClientWriteInfo {
		p.WroteRows, p.WroteBytes = 0, 0
	}
	if rev < RevServerQueryTime {
		p.ElapsedNs = 0
	}
	return p
}

type Profile struct {
	Rows, Blocks, Bytes       uint64
	AppliedLimit              bool
	RowsBeforeLimit           uint64
	CalculatedRowsBeforeLimit bool
}

func (p Profile) EncodeBody(w *W) {
	w.UVarint(p.Rows)
	w.UVarint(p.Blocks)
	w.UVarint(p.Bytes)
	w.Bool(p.AppliedLimit)
	w.UVarint(p.RowsBeforeLimit)
	w.Bool(p.CalculatedRowsBeforeLimit)
}

type TableColumns struct{ First, Second string }

func (t TableColumns) EncodeBody(w *W) { w.Str(t.First); w.Str(t.Second) }

// DataHeader writes the start of a Data-like packet: code and (from RevTempTables on) the
// table name.
func DataHeader(w *W, code uint64, table string, rev int) {
	w.UVarint(code)
	if rev >= RevTempTables {
		w.Str(table)
	}
}
